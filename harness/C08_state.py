"""C08: a failed builder step leaves every previously registered class in place (real property_from_data /
update_schemas_with_data, bad piece chosen symbolically from a pool, pre-state symbolic)."""
from pathlib import Path

from openapi_python_client import schema as oai
from openapi_python_client.config import Config, ConfigFile, MetaType
from openapi_python_client.parser.errors import PropertyError
from openapi_python_client.parser.properties import Schemas, build_schemas, property_from_data
from openapi_python_client.parser.properties.schemas import update_schemas_with_data

CFG = Config.from_sources(ConfigFile(post_hooks=[]), MetaType.NONE, Path("doc.json"), "utf-8", True, None)


def _s(d):
    return oai.Schema.model_validate(d)


BAD = (
    _s({"type": "array"}),
    _s({"type": "object", "properties": {"x": {"$ref": "#/components/schemas/Missing"}}}),
    _s({"type": "object", "properties": {"x": {"$ref": "https://remote/x.json"}}}),
    _s({"type": "object", "properties": {"x": {"type": "integer", "default": "zz"}}}),
    _s({"enum": ["a", 1]}),
    _s({"type": "object", "properties": {"e": {"type": "string", "enum": ["p"]}, "bad": {"type": "array"}}}),
    _s({"oneOf": [{"type": "string", "enum": ["u"]}, {"type": "array"}]}),
    _s({"allOf": [{"$ref": "#/components/schemas/Good0"}, {"$ref": "#/components/schemas/Missing"}]}),
    _s({"allOf": [{"$ref": "#/components/schemas/Good1"}, {"type": "object", "properties": {"z": {"type": "string"}}}]}),  # allOf of a non-object
    _s({"type": "object", "additionalProperties": {"type": "array"}}),
    _s({"type": "object", "properties": {"l": {"type": "array", "items": {"type": "array"}}}}),
    _s({"type": "object", "properties": {"e": {"type": "string", "enum": ["a"], "default": "b"}}}),
    _s({"allOf": [{"type": "object", "properties": {"p": {"type": "string"}}}, {"type": "object", "properties": {"p": {"type": "integer"}}}]}),
)
GOOD = (
    ("Good0", _s({"type": "object", "properties": {"g": {"type": "integer"}}})),
    ("Good1", _s({"type": "string", "enum": ["r", "s"]})),
)


def _pick(pool, i):
    for k in range(len(pool)):
        if i == k:
            return pool[k]
    return pool[0]


def failed_step_keeps_classes(n_good: int, bad: int, as_component: bool) -> bool:
    """
    pre: 0 <= n_good <= 2 and 0 <= bad < 13
    post: _
    """
    schemas = build_schemas(components={k: v for k, v in GOOD[:n_good]}, schemas=Schemas(), config=CFG)
    before_ref = dict(schemas.classes_by_reference)
    before_name = dict(schemas.classes_by_name)
    data = _pick(BAD, bad).model_copy(deep=True)
    if as_component:
        res = update_schemas_with_data(ref_path="/components/schemas/Bad", data=data, schemas=schemas, config=CFG)
        if not isinstance(res, PropertyError):
            out = res
            failed = False
        else:
            out = schemas
            failed = True
    else:
        prop, out = property_from_data(name="p", required=True, data=data, schemas=schemas, parent_name="Parent", config=CFG)
        failed = isinstance(prop, PropertyError)
    for k, v in before_ref.items():
        if out.classes_by_reference.get(k) is not v:
            return False
    for k, v in before_name.items():
        if out.classes_by_name.get(k) is not v:
            return False
    if failed and "/components/schemas/Bad" in out.classes_by_reference:
        return False
    return True


# ---------------------------------------------------------------------------- victims of a failing model
def _perm(items, p):
    items = list(items)
    out = []
    for i in range(len(items), 0, -1):
        out.append(items.pop(p % i))
        p //= i
    return out


SHARED = {"type": "object", "properties": {"s": {"type": "string"}}}
LATE = {"type": "object", "properties": {"uses": {"$ref": "#/components/schemas/Shared"}, "n": {"type": "integer"}}}
LATE_LIST = {"type": "object", "properties": {"many": {"type": "array", "items": {"$ref": "#/components/schemas/Shared"}}}}
BAD_PIECES = (
    {"type": "array"}, {"$ref": "#/components/schemas/Missing"}, {"type": "integer", "default": "zz"},
    {"type": "array", "items": {"type": "array"}}, {"oneOf": [{"type": "array"}, {"type": "string"}]}, {"type": "string", "enum": ["a"], "default": "b"}, {"allOf": [{"$ref": "#/components/schemas/Missing"}]},
)


def only_the_failing_model_is_removed(order: int, bad_first: bool, bad_kind: int, late_kind: bool) -> bool:
    """
    A failing model takes only itself (and its dependants) out: a healthy model that merely references the same
    shared schema survives, whatever the declaration order and wherever the bad piece sits inside the failing model.
    pre: 0 <= order < 6 and 0 <= bad_kind < 7
    post: _
    """
    bad_piece = _pick(BAD_PIECES, bad_kind)
    good_ref = {"$ref": "#/components/schemas/Shared"}
    props = {"z-bad": bad_piece, "a-shared": good_ref} if bad_first else {"a-shared": good_ref, "z-bad": bad_piece}
    comps = {"Shared": SHARED, "Early": {"type": "object", "properties": props}, "Late": LATE if late_kind else LATE_LIST}
    names = _perm(sorted(comps), order)
    schemas = build_schemas(components={n: _s(comps[n]) for n in names}, schemas=Schemas(), config=CFG)
    refs = schemas.classes_by_reference
    if "/components/schemas/Shared" not in refs or "/components/schemas/Late" not in refs:
        return False
    if "/components/schemas/Early" in refs:
        return False
    late = refs["/components/schemas/Late"]
    if late.class_info.name not in schemas.classes_by_name or not isinstance(late.optional_properties, list):
        return False
    blamed = "".join(e.detail or "" for e in schemas.errors)
    return "schemas/Late" not in blamed and "schemas/Shared" not in blamed and len(schemas.errors) == 1


# ------------------------------------------------------------------------------------------------ overridden path-item parameter
from openapi_python_client.parser.errors import ParseError  # noqa: E402
from openapi_python_client.parser.openapi import Endpoint  # noqa: E402
from openapi_python_client.parser.properties import Parameters, StringProperty  # noqa: E402

_LOCS = ("query", "header", "cookie", "path")
_OVERRIDDEN = (
    {"type": "array"},
    {"$ref": "#/components/schemas/Missing"},
    {"type": "integer", "default": "zz"},
    {"enum": ["a", 1]},
    {"type": "string", "enum": ["would", "register", "a-class"]},  # valid, but must not leave a class behind either
)
_EP0 = Endpoint(path="/x/{p}", method="get", description=None, name="op", requires_security=False, tags=[])


def overridden_pathitem_parameter_is_never_looked_at(loc: int, bad: int, extra: bool) -> bool:
    """
    A path-item parameter that the operation re-declares (same name, same location) does not take part in the
    operation at all: whatever its schema is — unparseable, dangling, ill-defaulted, or a valid inline enum — the
    operation is built, keeps its own declaration, and nothing is registered on the ignored parameter's behalf.
    pre: 0 <= loc < 4 and 0 <= bad < 5
    post: _
    """
    where = _pick(_LOCS, loc)
    op = oai.Operation.model_validate({"parameters": [{"name": "p", "in": where, "required": True, "schema": {"type": "string"}}] + ([{"name": "p", "in": "path", "required": True, "schema": {"type": "string"}}] if where != "path" else []), "responses": {}})
    item_params = [{"name": "p", "in": where, "required": where == "path", "schema": _pick(_OVERRIDDEN, bad)}]
    if extra:
        item_params.append({"name": "other", "in": "query", "schema": {"type": "integer"}})
    item = oai.PathItem.model_validate({"parameters": item_params})
    ep1, s1, p1 = Endpoint.add_parameters(endpoint=_EP0, data=op, schemas=Schemas(), parameters=Parameters(), config=CFG)
    if isinstance(ep1, ParseError):
        return False
    ep2, s2, p2 = Endpoint.add_parameters(endpoint=ep1, data=item, schemas=s1, parameters=p1, config=CFG)
    if isinstance(ep2, ParseError):
        return False
    mine = [q for q in {"query": ep2.query_parameters, "header": ep2.header_parameters, "cookie": ep2.cookie_parameters, "path": ep2.path_parameters}[where] if q.name == "p"]
    if len(mine) != 1 or not isinstance(mine[0], StringProperty):
        return False
    if sorted(map(str, s2.classes_by_name)) != sorted(map(str, s1.classes_by_name)):
        return False
    return len([q for q in ep2.query_parameters if q.name == "other"]) == (1 if extra else 0)
