"""C20 / C06: request-body reference chains resolve like the inline body, dangling and circular ones are diagnosed."""
from openapi_python_client import schema as oai
from openapi_python_client.parser.bodies import _resolve_reference
from openapi_python_client.parser.errors import ParseError

NAMES = ["n0", "n1", "n2"]
BODY = oai.RequestBody.model_construct(content={}, description="the body", required=False)
REFS = [oai.Reference.model_construct(ref=f"#/components/requestBodies/{n}") for n in NAMES]
DANGLING = oai.Reference.model_construct(ref="#/components/requestBodies/missing")


def _entry(kind: int):
    # 0..2: reference to n0..n2, 3: the body itself, 4: dangling reference, 5: absent from the table
    if kind == 0:
        return REFS[0]
    if kind == 1:
        return REFS[1]
    if kind == 2:
        return REFS[2]
    if kind == 3:
        return BODY
    if kind == 4:
        return DANGLING
    return None


class _Budget(Exception):
    pass


class _CountingTable(dict):
    """A reference table that gives up after more look-ups than any terminating resolution can need."""

    def __init__(self, *a, **k):
        super().__init__(*a, **k)
        self.lookups = 0

    def get(self, key, default=None):
        self.lookups += 1
        if self.lookups > 12:
            raise _Budget()
        return super().get(key, default)


def resolve_chain(start: int, t0: int, t1: int, t2: int) -> bool:
    """
    pre: 0 <= start <= 5 and 0 <= t0 <= 5 and 0 <= t1 <= 5 and 0 <= t2 <= 5
    post: _
    """
    table = _CountingTable()
    kinds = [t0, t1, t2]
    for i in range(3):
        e = _entry(kinds[i])
        if e is not None:
            table[NAMES[i]] = e
    try:
        res = _resolve_reference(_entry(start), table)
    except _Budget:
        return False  # more look-ups than entries: the resolution does not terminate on this (cyclic) table
    # oracle: follow the chain by hand
    cur = start
    steps = 0
    while cur in (0, 1, 2) and steps < 5:
        cur = kinds[cur]
        steps += 1
    if start == 5:
        return res is None
    if cur == 3:
        return res is BODY
    if cur in (0, 1, 2):  # still a reference after more steps than entries: a cycle
        return isinstance(res, ParseError) and "ircular" in (res.detail or "")
    # dangling (4) or missing table entry (5)
    return isinstance(res, ParseError)


# ------------------------------------------------------------------------------------------------ malformed body references
BAD_BODY_REFS = (
    "https://remote.example/api.yaml#/components/requestBodies/n0",
    "other.yaml#/components/requestBodies/n0",
    "#/components/schemas/n0",
    "#/components/responses/n0",
    "#/components/requestBodies/missing",
    "n0",
    "",
)


def malformed_body_reference_is_diagnosed(bad: int, via_alias: bool) -> bool:
    """
    A request-body reference that is remote, relative to another file, points into another section or names nothing
    is reported (a ParseError) - directly or behind a well-formed alias - and is never bound to a local body that
    merely has the same last path segment.
    pre: 0 <= bad < 7
    post: _
    """
    ref = None
    for i in range(len(BAD_BODY_REFS)):
        if i == bad:
            ref = oai.Reference.model_construct(ref=BAD_BODY_REFS[i])
    table = {"n0": BODY, "n1": ref}
    start = REFS[1] if via_alias else ref
    res = _resolve_reference(start, table)
    return isinstance(res, ParseError)
