"""Development tool: call every E2 harness condition concretely on random arguments inside its `pre:` bounds, under
coverage.py, to see which generator lines the harnesses can reach at all (CrossHair processes cannot run coverage)."""
import ast
import importlib.util
import inspect
import random
import re
import sys
from pathlib import Path

H = Path("/verif/harness")
rnd = random.Random(1)
STR = ["", "a", "a\\", '"', "a b", "A", "²", "x-y", "1a", "class", "\n", 'a"b']


def ranges(doc: str) -> dict:
    out = {}
    for m in re.finditer(r"(-?\d+)\s*<=\s*(\w+)\s*(<=|<)\s*(-?\d+)", doc or ""):
        lo, name, op, hi = int(m.group(1)), m.group(2), m.group(3), int(m.group(4))
        out[name] = (lo, hi if op == "<=" else hi - 1)
    for m in re.finditer(r"len\((\w+)\)\s*<=\s*(\d+)", doc or ""):
        out[m.group(1)] = ("len", int(m.group(2)))
    return out


def main() -> None:
    sys.path.insert(0, str(H))
    sys.path.insert(0, "/verif")
    n_calls = 0
    for f in sorted(H.glob("C*.py")):
        if f.name == "C12_sets.py":
            continue  # needs its import hook before the generator is imported
        spec = importlib.util.spec_from_file_location(f.stem, f)
        mod = importlib.util.module_from_spec(spec)
        try:
            spec.loader.exec_module(mod)
        except Exception as e:
            print("cannot import", f.name, e)
            continue
        for name, fn in inspect.getmembers(mod, inspect.isfunction):
            if fn.__module__ != f.stem or "post:" not in (fn.__doc__ or ""):
                continue
            rg = ranges(fn.__doc__)
            sig = inspect.signature(fn)
            for _ in range(40):
                kw = {}
                for p, par in sig.parameters.items():
                    ann = par.annotation
                    if ann is bool:
                        kw[p] = rnd.random() < 0.5
                    elif ann is int:
                        lo, hi = rg.get(p, (0, 3))
                        kw[p] = rnd.randint(lo, hi)
                    elif ann is str:
                        mx = rg.get(p, ("len", 3))[1]
                        kw[p] = rnd.choice([s for s in STR if len(s) <= mx])
                    else:
                        kw[p] = None
                try:
                    fn(**kw)
                except BaseException:
                    pass
                n_calls += 1
    print("calls", n_calls)


main()
