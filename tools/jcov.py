"""Development tool (not a check): which lines of the Jinja templates do the documents of /verif ever render?

A mutant in a template line (or parser line) that no skeleton, canary or twin document reaches cannot be detected by
any engine, however exhaustive inside a shape.  This tool measures that reach so that shapes are added by evidence,
not by guessing.

    VERIF_JCOV=<dir>   every python process started from .venv records, through sys.monitoring (which coexists with
                       coverage.py's and CrossHair's sys.settrace tracers), the executed lines of code objects whose
                       file name ends with ".jinja" and dumps them to <dir>/<pid>.json at exit.
    python tools/jcov.py report <dir>    maps the recorded lines of the compiled template code back to template lines
                                         (jinja2's debug_info) and prints the template statements never executed.

Enable with a .pth in .venv:  echo "import os; os.environ.get('VERIF_JCOV') and __import__('jcov_hook')" > $SP/zz_jcov.pth
(plus a copy of this file named jcov_hook.py next to it).
"""
from __future__ import annotations

import atexit
import json
import os
import sys


def install() -> None:
    out = os.environ.get("VERIF_JCOV")
    if not out or not hasattr(sys, "monitoring"):
        return
    mon = sys.monitoring
    tool = 4
    try:
        mon.use_tool_id(tool, "verif-jcov")
    except ValueError:
        return
    seen: set[tuple[str, int]] = set()

    def on_line(code, lineno):  # noqa: ANN001
        fn = code.co_filename
        if fn.endswith(".jinja"):
            seen.add((fn, lineno))
            return None
        return mon.DISABLE

    mon.register_callback(tool, mon.events.LINE, on_line)
    mon.set_events(tool, mon.events.LINE)

    def dump() -> None:
        if not seen:
            return
        try:
            os.makedirs(out, exist_ok=True)
            with open(os.path.join(out, f"{os.getpid()}.json"), "w") as f:
                json.dump(sorted(seen), f)
        except OSError:
            pass

    atexit.register(dump)


def report(d: str) -> None:
    import re
    from pathlib import Path

    import jinja2

    import openapi_python_client as opc

    seen: dict[str, set[int]] = {}
    for p in Path(d).glob("*.json"):
        for fn, ln in json.loads(p.read_text()):
            seen.setdefault(fn, set()).add(ln)
    tdir = Path(opc.__file__).parent / "templates"
    env = jinja2.Environment(
        loader=jinja2.FileSystemLoader(str(tdir)), trim_blocks=True, lstrip_blocks=True, extensions=["jinja2.ext.loopcontrols"], keep_trailing_newline=True
    )
    env.filters.update(opc.TEMPLATE_FILTERS)
    total_missing = 0
    for tp in sorted(tdir.rglob("*.jinja")):
        rel = str(tp.relative_to(tdir))
        src = tp.read_text()
        code = env.compile(src, rel, str(tp), raw=True)
        # debug info: "tmpl_line=py_line&..."
        m = re.search(r"^debug_info = '([^']*)'", code, re.M)
        pairs = [tuple(map(int, x.split("="))) for x in m.group(1).split("&")] if m and m.group(1) else []
        hit_py = set()
        for fn, lines in seen.items():
            if Path(fn).resolve() == tp.resolve() or fn.endswith("/templates/" + rel):
                hit_py |= lines
        # a template line counts as executed when some python line mapped to it (the py line of the pair, or any py
        # line up to the next pair's) was executed
        pairs_sorted = sorted(pairs, key=lambda x: x[1])
        tmpl_hit: set[int] = set()
        tmpl_all: set[int] = set()
        for i, (tl, pl) in enumerate(pairs_sorted):
            nxt = pairs_sorted[i + 1][1] if i + 1 < len(pairs_sorted) else 10**9
            tmpl_all.add(tl)
            if any(pl <= h < nxt for h in hit_py):
                tmpl_hit.add(tl)
        missing = sorted(tmpl_all - tmpl_hit)
        src_lines = src.splitlines()
        if not hit_py:
            print(f"## {rel}: NEVER RENDERED ({len(tmpl_all)} statements)")
            total_missing += len(tmpl_all)
            continue
        print(f"## {rel}: {len(tmpl_hit)}/{len(tmpl_all)} statements rendered")
        for tl in missing:
            total_missing += 1
            print(f"   {tl:4}: {src_lines[tl - 1].strip()[:150]}")
    print("total never-rendered statements:", total_missing)


if __name__ == "__main__":
    if len(sys.argv) >= 3 and sys.argv[1] == "report":
        report(sys.argv[2])
else:
    install()
