"""C16 / C07: which endpoint module the real `Project.build` writes under which tag directory.

Rendering is replaced by a marker that identifies the endpoint it was asked to render, the file system is a recording
stub.  With generate_all_tags every operation's module appears under each of its tags and holds *that* operation;
without it only under the first tag.  Operations whose module names coincide live under disjoint tag sets here (the
same-tag collision is finding C07-F2)."""
from pathlib import Path
from unittest import mock

import openapi_python_client as opc
from openapi_python_client import Project, utils
from openapi_python_client.config import Config, ConfigFile, MetaType
from openapi_python_client.parser import GeneratorData


def _op(oid, tags):
    return {"operationId": oid, "tags": tags, "responses": {"204": {"description": "d"}}}


OPS = (
    ("/items/{id}", "get", "getItem", ["alpha", "beta tag"]),
    ("/things/{id}", "put", "get_item", ["gamma", "delta"]),  # same module name as getItem, disjoint tags
    ("/multi", "post", "multiTag", ["beta tag", "gamma", "alpha"]),
    ("/single", "get", "single", ["delta"]),
    ("/untagged", "delete", "untagged", None),
)
DOC = {"openapi": "3.1.0", "info": {"title": "Tags", "version": "1"}, "paths": {}}
for _p, _m, _o, _t in OPS:
    _d = _op(_o, _t)
    if _t is None:
        del _d["tags"]
    if "{id}" in _p:
        _d["parameters"] = [{"name": "id", "in": "path", "required": True, "schema": {"type": "string"}}]
    DOC["paths"].setdefault(_p, {})[_m] = _d
OUT = Path("/nonexistent-verif/out-tags")


def _project(all_tags):
    cfg = Config.from_sources(ConfigFile(post_hooks=[], generate_all_tags=all_tags), MetaType.NONE, Path("doc.json"), "utf-8", True, OUT)
    data = GeneratorData.from_dict(DOC, config=cfg)
    data.models, data.enums = list(data.models), list(data.enums)
    return Project(openapi=data, config=cfg)


PROJECTS = {False: _project(False), True: _project(True)}
# expectations are computed from the document (tag directory = the generator's own identifier function, which is not the subject here)
TAGDIR = {t: str(utils.PythonIdentifier(t, "")) for t in ("alpha", "beta tag", "gamma", "delta", "default")}
MODULE = {o: str(utils.PythonIdentifier(o, "")) for _, _, o, _ in OPS}


class _T:
    def render(self, *a, **k):
        ep = k.get("endpoint")
        if ep is not None:
            return f"EP {ep.method} {ep.path}"
        return ""


def tag_directories_hold_their_own_operations(all_tags: bool) -> bool:
    """
    post: _
    """
    proj = PROJECTS[True if all_tags else False]
    written = []

    def fake_write(self, data, encoding=None, errors=None, newline=None):
        written.append((str(self), data))
        return 0

    patches = [
        mock.patch.object(Path, "mkdir", lambda self, mode=0o777, parents=False, exist_ok=False: None),
        mock.patch.object(Path, "write_text", fake_write),
        mock.patch.object(opc.shutil, "rmtree", lambda *a, **k: None),
        mock.patch.object(proj.env, "get_template", lambda *a, **k: _T()),
        mock.patch("builtins.print", lambda *a, **k: None),
    ]
    for p in patches:
        p.start()
    try:
        res = proj.build()
    finally:
        for p in reversed(patches):
            p.stop()
    if len(res) != 0:
        return False
    api = str(proj.package_dir / "api")
    got = sorted((p[len(api) + 1:], d) for p, d in written if p.startswith(api + "/") and not p.endswith("__init__.py"))
    want = []
    for path, method, oid, tags in OPS:
        ts = tags or ["default"]
        if not all_tags:
            ts = ts[:1]
        for t in ts:
            want.append((f"{TAGDIR[t]}/{MODULE[oid]}.py", f"EP {method} {path}"))
    return got == sorted(want)
