"""C08 / C01: cascading removal after model errors is dependency-closed and minimal (real _process_model_errors)."""
from openapi_python_client.parser.errors import PropertyError
from openapi_python_client.parser.properties import Schemas, _process_model_errors
from openapi_python_client.utils import ClassName

REFS = ["/components/schemas/A", "/components/schemas/B", "/components/schemas/C", "/components/schemas/D"]
NAMES = [ClassName("A", ""), ClassName("B", ""), ClassName("C", ""), ClassName("D", "")]


class _Model:
    def __init__(self, i):
        self.roots = {REFS[i], NAMES[i]}
        self.name = REFS[i]


def _check(n, dep, failing):
    """dep[i][j]: model j depends on component i (so removing i must remove j)."""
    models = [_Model(i) for i in range(n)]
    schemas = Schemas()
    for i in range(n):
        schemas.classes_by_reference[REFS[i]] = models[i]
        schemas.classes_by_name[NAMES[i]] = models[i]
        deps = set()
        for j in range(n):
            if dep[i][j] and i != j:
                deps.add(REFS[j])
                deps.add(NAMES[j])
        if deps:
            schemas.dependencies[REFS[i]] = deps
    errs = [(models[i], PropertyError(detail="x")) for i in range(n) if failing[i]]
    out = _process_model_errors(errs, schemas=schemas)
    # expected closure
    removed = [bool(failing[i]) for i in range(n)]
    changed = True
    while changed:
        changed = False
        for i in range(n):
            if removed[i]:
                for j in range(n):
                    if i != j and dep[i][j] and not removed[j]:
                        removed[j] = True
                        changed = True
    for i in range(n):
        if (REFS[i] in schemas.classes_by_reference) == removed[i]:
            return False
        if (NAMES[i] in schemas.classes_by_name) == removed[i]:
            return False
    # every failing model's error detail names every reference it caused to be removed
    if len(out) != len(errs):
        return False
    all_detail = "".join(e.detail or "" for e in out)
    for i in range(n):
        if removed[i] and REFS[i] not in all_detail:
            return False
    return True


def removal_closure_3(d01: bool, d02: bool, d10: bool, d12: bool, d20: bool, d21: bool, f0: bool, f1: bool, f2: bool) -> bool:
    """
    post: _
    """
    dep = [[False, d01, d02], [d10, False, d12], [d20, d21, False]]
    return _check(3, dep, [f0, f1, f2])


def _closure4(d01, d02, d03, d10, d12, d13, d20, d21, d23, d30, d31, d32, f0, f1) -> bool:
    dep = [[False, d01, d02, d03], [d10, False, d12, d13], [d20, d21, False, d23], [d30, d31, d32, False]]
    return _check(4, dep, [f0, f1, False, False])


# all 4-node graphs: 2^12 edge sets x 4 failing subsets, split by the first two edges into four conditions of 4096 paths
def removal_closure_4a_thorough(d03: bool, d10: bool, d12: bool, d13: bool, d20: bool, d21: bool, d23: bool, d30: bool, d31: bool, d32: bool, f0: bool, f1: bool) -> bool:
    """
    post: _
    """
    return _closure4(False, False, d03, d10, d12, d13, d20, d21, d23, d30, d31, d32, f0, f1)


def removal_closure_4b_thorough(d03: bool, d10: bool, d12: bool, d13: bool, d20: bool, d21: bool, d23: bool, d30: bool, d31: bool, d32: bool, f0: bool, f1: bool) -> bool:
    """
    post: _
    """
    return _closure4(False, True, d03, d10, d12, d13, d20, d21, d23, d30, d31, d32, f0, f1)


def removal_closure_4c_thorough(d03: bool, d10: bool, d12: bool, d13: bool, d20: bool, d21: bool, d23: bool, d30: bool, d31: bool, d32: bool, f0: bool, f1: bool) -> bool:
    """
    post: _
    """
    return _closure4(True, False, d03, d10, d12, d13, d20, d21, d23, d30, d31, d32, f0, f1)


def removal_closure_4d_thorough(d03: bool, d10: bool, d12: bool, d13: bool, d20: bool, d21: bool, d23: bool, d30: bool, d31: bool, d32: bool, f0: bool, f1: bool) -> bool:
    """
    post: _
    """
    return _closure4(True, True, d03, d10, d12, d13, d20, d21, d23, d30, d31, d32, f0, f1)
