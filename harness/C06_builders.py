"""C06: no builder raises; whole-document rejection is a diagnostic; fix-point loops terminate and account for every item."""
from pathlib import Path
from unittest import mock

import pydantic

from openapi_python_client import schema as oai
from openapi_python_client.config import Config, ConfigFile, MetaType
from openapi_python_client.parser import openapi as parser_openapi
from openapi_python_client.parser.errors import GeneratorError, ParseError, PropertyError
from openapi_python_client.parser.openapi import GeneratorData
from openapi_python_client.parser.properties import (
    AnyProperty, BooleanProperty, ConstProperty, DateProperty, DateTimeProperty, FloatProperty, IntProperty, NoneProperty,
    Schemas, StringProperty, UuidProperty, _create_schemas,
)
from openapi_python_client.parser.properties import schemas as schemas_mod
from openapi_python_client.parser.properties.protocol import Value
from openapi_python_client.utils import PythonIdentifier

CFG = Config.from_sources(ConfigFile(post_hooks=[]), MetaType.NONE, Path("doc.json"), "utf-8", True, None)
VERR = pydantic.ValidationError.from_exception_data("OpenAPI", [])

# ---------------------------------------------------------------------------- whole-document rejection
JUNK_DOCS = (42, None, 1.5, True, "swagger", ["swagger"], {"swagger": "2.0"}, {}, {"openapi": 3}, [])


def _raise_verr(*a, **k):
    raise VERR


def reject_document(kind: int) -> bool:
    """
    pre: 0 <= kind < 10
    post: _
    """
    data = JUNK_DOCS[0]
    for i in range(len(JUNK_DOCS)):
        if kind == i:
            data = JUNK_DOCS[i]
    with mock.patch.object(oai.OpenAPI, "model_validate", _raise_verr):
        res = GeneratorData.from_dict(data, config=CFG)
    return isinstance(res, GeneratorError)


# ---------------------------------------------------------------------------- convert_value of every kind
STR_POOL = ("", "1", "1.0", "1e3", " 1 ", "1_0", "١", "nan", "inf", "-0", "abc", "true", "TRUE", "None", "2020-01-02", "2020-01-02T03:04:05Z",
            "12345678-1234-5678-1234-567812345678", "1e999", "0x10", "\n1", "a\"b", "a\\", "²")
INT_POOL = (0, 1, -1, 10**20)
FLOAT_POOL = (0.0, 1.5, -2.25, 1e300, float("inf"), float("nan"), 1.0)
PY = PythonIdentifier("x", "")


def _pick(pool, i):
    for k in range(len(pool)):
        if i == k:
            return pool[k]
    return pool[0]


def _json_value(t: int, b: bool, i: int, f: int, s: int):
    if t == 0:
        return None
    if t == 1:
        return True if b else False
    if t == 2:
        return _pick(INT_POOL, i)
    if t == 3:
        return _pick(FLOAT_POOL, f)
    if t == 4:
        return _pick(STR_POOL, s)
    if t == 5:
        return []
    if t == 6:
        return {}
    return [1, "a"]


def _ok_result(r) -> bool:
    return r is None or isinstance(r, (Value, PropertyError))


def _cv(cls_or_obj, t, b, i, f, s) -> bool:
    v = _json_value(t, b, i, f, s)
    r = cls_or_obj.convert_value(v)
    return _ok_result(r)


def cv_int(t: int, b: bool, i: int, f: int, s: int) -> bool:
    """
    pre: 0 <= t <= 7 and 0 <= i < 4 and 0 <= f < 7 and 0 <= s < 23
    post: _
    """
    return _cv(IntProperty, t, b, i, f, s)


def cv_float(t: int, b: bool, i: int, f: int, s: int) -> bool:
    """
    pre: 0 <= t <= 7 and 0 <= i < 4 and 0 <= f < 7 and 0 <= s < 23
    post: _
    """
    return _cv(FloatProperty, t, b, i, f, s)


def cv_bool(t: int, b: bool, i: int, f: int, s: int) -> bool:
    """
    pre: 0 <= t <= 7 and 0 <= i < 4 and 0 <= f < 7 and 0 <= s < 23
    post: _
    """
    return _cv(BooleanProperty, t, b, i, f, s)


def cv_string(t: int, b: bool, i: int, f: int, s: int) -> bool:
    """
    pre: 0 <= t <= 7 and 0 <= i < 4 and 0 <= f < 7 and 0 <= s < 23
    post: _
    """
    return _cv(StringProperty, t, b, i, f, s)


def cv_date(t: int, b: bool, i: int, f: int, s: int) -> bool:
    """
    pre: 0 <= t <= 7 and 0 <= i < 4 and 0 <= f < 7 and 0 <= s < 23
    post: _
    """
    return _cv(DateProperty, t, b, i, f, s)


def cv_datetime(t: int, b: bool, i: int, f: int, s: int) -> bool:
    """
    pre: 0 <= t <= 7 and 0 <= i < 4 and 0 <= f < 7 and 0 <= s < 23
    post: _
    """
    return _cv(DateTimeProperty, t, b, i, f, s)


def cv_uuid(t: int, b: bool, i: int, f: int, s: int) -> bool:
    """
    pre: 0 <= t <= 7 and 0 <= i < 4 and 0 <= f < 7 and 0 <= s < 23
    post: _
    """
    return _cv(UuidProperty, t, b, i, f, s)


def cv_none(t: int, b: bool, i: int, f: int, s: int) -> bool:
    """
    pre: 0 <= t <= 7 and 0 <= i < 4 and 0 <= f < 7 and 0 <= s < 23
    post: _
    """
    return _cv(NoneProperty, t, b, i, f, s)


def cv_any(t: int, b: bool, i: int, f: int, s: int) -> bool:
    """
    pre: 0 <= t <= 7 and 0 <= i < 4 and 0 <= f < 7 and 0 <= s < 23
    post: _
    """
    return _cv(AnyProperty, t, b, i, f, s)


def cv_const(ct: int, cb: bool, ci: int, cs: int, t: int, b: bool, i: int, f: int, s: int) -> bool:
    """
    pre: 1 <= ct <= 4 and 0 <= ci < 4 and 0 <= cs < 23
    pre: 0 <= t <= 7 and 0 <= i < 4 and 0 <= f < 7 and 0 <= s < 23
    post: _
    """
    const = _json_value(ct, cb, ci, 1, cs)
    default = _json_value(t, b, i, f, s)
    r = ConstProperty.build(const=const, default=default, name="x", python_name=PY, required=True, description=None)
    return isinstance(r, (ConstProperty, PropertyError))


# ---------------------------------------------------------------------------- fix-point termination (stubbed step)
class _Budget(Exception):
    pass


def create_schemas_terminates(o00: bool, o01: bool, o10: bool, o11: bool, o20: bool, o21: bool, o02: bool, o12: bool, o22: bool) -> bool:
    """
    The per-component step is a nondeterministic stub: whether component i succeeds may depend on how many components
    are already present (outcome[i][k], k = number present).  The loop must stop within n+1 rounds and every component
    must end up either registered or named in an error.
    post: _
    """
    names = ["A", "B", "C"]
    outcome = {"A": [o00, o01, o02], "B": [o10, o11, o12], "C": [o20, o21, o22]}
    calls = [0]

    def stub(*, ref_path, data, schemas, config):
        calls[0] += 1
        if calls[0] > 3 * 4 + 1:
            raise _Budget()
        nm = ref_path.split("/")[-1]
        k = len(schemas.classes_by_reference)
        if outcome[nm][min(k, 2)]:
            s2 = Schemas(classes_by_reference={ref_path: object(), **schemas.classes_by_reference}, errors=schemas.errors)
            return s2
        return PropertyError(detail=f"cannot build {nm}")

    comps = {n: oai.Schema.model_construct() for n in names}
    import openapi_python_client.parser.properties as props

    with mock.patch.object(props, "update_schemas_with_data", stub):
        try:
            out = _create_schemas(components=comps, schemas=Schemas(), config=CFG)
        except _Budget:
            return False
    details = "".join(e.detail or "" for e in out.errors)
    for n in names:
        registered = f"/components/schemas/{n}" in out.classes_by_reference
        diagnosed = f"cannot build {n}" in details
        if registered == diagnosed:
            return False
    return True
