"""A symbolic interpreter over the Python `ast` of the *real* repo functions (source via inspect.getsource at run time).

No repo function is modelled by hand: its AST is walked, symbolic control flow is merged with ITE, library calls on
symbolic values go to the modelled surface in core.py / regex.py, anything else raises Unsupported.

The same walker also runs on concrete values ("shadow mode"): then every library call is the real CPython call and
the interpreter only records, per expression site, the longest string observed.  Those maxima become capacity guesses
for the symbolic run; each truncation `cap(site)` adds the side condition `len <= cap(site)`, and the side conditions
are discharged by one extra solver query (see Encoded.check_caps) — so a wrong guess is detected, never trusted.
"""
from __future__ import annotations

import ast
import builtins
import inspect
import keyword
import re
import textwrap
from dataclasses import dataclass
from typing import Any, Callable

import z3

from . import core
from .core import (
    FALSE,
    LOWER,
    TITLE,
    TRUE,
    UPPER,
    BStr,
    CharMap,
    Unsupported,
    as_bstr,
    bv,
    compact,
    const_str,
    inb,
    lv,
)
from .alphabet import IDX
from .regex import Scan

REPO_PKG = "openapi_python_client"


# --------------------------------------------------------------------------------------------- vector values
class CharVec:
    """The generic character of a BStr while a generator over its characters is evaluated once for all positions."""

    def __init__(self, s: BStr) -> None:
        self.s = s


class BoolVec:
    def __init__(self, vals: list, guard: list) -> None:
        self.vals, self.guard = vals, guard


class SegList:
    """A list of words represented as a segmentation: position i contributes segs[i][:cnts[i]]; starts[i] marks the
    first position of a word; inw[i] says position i belongs to some word."""

    def __init__(self, segs, cnts, starts, inw) -> None:
        self.segs, self.cnts, self.starts, self.inw = segs, cnts, starts, inw

    @property
    def npos(self) -> int:
        return len(self.segs)

    def count(self):
        acc = lv(0)
        for s in self.starts:
            acc = acc + z3.If(s, lv(1), lv(0))
        return acc


class WordVec:
    """The generic word of a SegList during vectorised evaluation of a generator over the words."""

    def __init__(self, sl: SegList) -> None:
        self.sl = sl

    def _word_any(self, f):
        sl, n = self.sl, self.sl.npos
        for seg in sl.segs:
            if len(seg) != 1:
                raise Unsupported("per-word predicate on already-mapped words")
        here = [z3.And(sl.inw[i], f(sl.segs[i][0])) for i in range(n)]
        fwd = []
        for i in range(n):
            prev = fwd[i - 1] if i > 0 else FALSE
            fwd.append(z3.If(sl.starts[i], here[i], z3.Or(prev, here[i])))
        last = [z3.And(sl.inw[i], z3.Or(z3.Not(sl.inw[i + 1]), sl.starts[i + 1]) if i + 1 < n else TRUE) for i in range(n)]
        bwd: list = [None] * n
        for i in reversed(range(n)):
            nxt = bwd[i + 1] if i + 1 < n else FALSE
            bwd[i] = z3.If(last[i], fwd[i], nxt)
        return bwd

    def isupper(self):
        a, b = self._word_any(core.P_UPPER), self._word_any(core.P_LOWER_OR_TITLE)
        return BoolVec([z3.And(x, z3.Not(y)) for x, y in zip(a, b)], self.sl.inw)

    def islower(self):
        a, b = self._word_any(core.P_LOWER), self._word_any(core.P_UPPER_OR_TITLE)
        return BoolVec([z3.And(x, z3.Not(y)) for x, y in zip(a, b)], self.sl.inw)

    def _mapped(self, first: CharMap, rest: CharMap):
        sl, segs, cnts = self.sl, [], []
        for i in range(sl.npos):
            if len(sl.segs[i]) != 1:
                raise Unsupported("mapping already-mapped words")
            c = sl.segs[i][0]
            m = max(first.maxl, rest.maxl)
            segs.append([z3.If(sl.starts[i], first.ch(c, k) if k < first.maxl else bv(core.PAD), rest.ch(c, k) if k < rest.maxl else bv(core.PAD)) for k in range(m)])
            cnts.append(z3.If(sl.inw[i], z3.If(sl.starts[i], first.ln(c), rest.ln(c)), lv(0)))
        return WordVec(SegList(segs, cnts, sl.starts, sl.inw))

    def capitalize(self):
        return self._mapped(TITLE, LOWER)

    def lower(self):
        return self._mapped(LOWER, LOWER)

    def upper(self):
        return self._mapped(UPPER, UPPER)

    def title(self):
        raise Unsupported("word.title()")


def wordvec_ite(test: BoolVec, a: WordVec, b: WordVec) -> WordVec:
    segs, cnts = [], []
    for i in range(a.sl.npos):
        sa, sb = a.sl.segs[i], b.sl.segs[i]
        m = max(len(sa), len(sb))
        sa = sa + [bv(core.PAD)] * (m - len(sa))
        sb = sb + [bv(core.PAD)] * (m - len(sb))
        segs.append([z3.If(test.vals[i], x, y) for x, y in zip(sa, sb)])
        cnts.append(z3.If(test.vals[i], a.sl.cnts[i], b.sl.cnts[i]))
    return WordVec(SegList(segs, cnts, a.sl.starts, a.sl.inw))


def seg_join(sep: str, sl: SegList) -> BStr:
    segs, cnts, cap, seen = [], [], 0, FALSE
    for i in range(sl.npos):
        put = z3.And(sl.starts[i], seen)
        if sep:
            segs.append([core.C(c) for c in sep])
            cnts.append(z3.If(put, lv(len(sep)), lv(0)))
            cap += len(sep)
        segs.append(sl.segs[i])
        cnts.append(sl.cnts[i])
        cap += len(sl.segs[i])
        seen = z3.Or(seen, sl.starts[i])
    return compact(segs, cnts, cap)


class SplitPieces:
    """re.split('(pattern)', s): the pieces are never materialised; only `sep.join(pieces)` is supported."""

    def __init__(self, s: BStr, sc: Scan) -> None:
        self.s, self.sc = s, sc


def split_join(sep: str, sp: SplitPieces) -> BStr:
    s, starts, inm = sp.s, sp.sc.starts, sp.sc.inm
    sepi, L = [core.C(c) for c in sep], len(sep)
    segs, cnts, cap = [], [], 0
    for i in range(s.cap):
        end_before = z3.And(inm[i - 1], z3.Or(z3.Not(inm[i]), starts[i])) if i > 0 else FALSE
        for flag in (end_before, starts[i]):
            if L:
                segs.append(sepi)
                cnts.append(z3.If(z3.And(inb(s, i), flag), lv(L), lv(0)))
                cap += L
        segs.append([s.ch[i]])
        cnts.append(z3.If(inb(s, i), lv(1), lv(0)))
        cap += 1
    last_in = z3.Or([z3.And(s.n == lv(i + 1), inm[i]) for i in range(s.cap)]) if s.cap else FALSE
    if L:
        segs.append(sepi)
        cnts.append(z3.If(last_in, lv(L), lv(0)))
        cap += L
    return compact(segs, cnts, cap)


class SymDict:
    """dict with symbolic string keys as an association list; overwriting kills the old entry (order not modelled)."""

    def __init__(self) -> None:
        self.entries: list[list] = []  # [key, value, live]

    def contains(self, key):
        return z3.Or([z3.And(live, core.eq(k, key)) for k, _, live in self.entries]) if self.entries else FALSE

    def set(self, key, value, cond) -> None:
        for e in self.entries:
            e[2] = z3.And(e[2], z3.Not(z3.And(cond, core.eq(e[0], key))))
        self.entries.append([key, value, cond if not isinstance(cond, bool) else z3.BoolVal(cond)])

    def copy(self) -> "SymDict":
        d = SymDict()
        d.entries = [list(e) for e in self.entries]
        return d

    def size(self):
        acc = lv(0)
        for _, _, live in self.entries:
            acc = acc + z3.If(live, lv(1), lv(0))
        return acc


class Choice:
    """A value that is one of several alternatives of different shapes: [(cond, value)], conds mutually exclusive."""

    def __init__(self, alts: list[tuple[Any, Any]]) -> None:
        self.alts = alts


class Opaque:
    """Result of a nondeterministic stub (e.g. float(str)): an uninterpreted value with a tag."""

    def __init__(self, tag: str, payload: Any = None) -> None:
        self.tag, self.payload = tag, payload


class Bottom:
    """Value of an expression that unconditionally raised."""


SYMBOLIC = (BStr, CharVec, BoolVec, SegList, WordVec, SplitPieces, SymDict, Choice, Opaque, Bottom)


def is_symbolic(x: Any, depth: int = 0) -> bool:
    if isinstance(x, SYMBOLIC) or z3.is_expr(x):
        return True
    if depth < 3 and isinstance(x, (list, tuple, set, frozenset)):
        return any(is_symbolic(v, depth + 1) for v in x)
    if depth < 3 and isinstance(x, dict):
        return any(is_symbolic(v, depth + 1) or is_symbolic(k, depth + 1) for k, v in x.items())
    if isinstance(x, tuple) and len(x) == 3 and x[0] == "method":
        return is_symbolic(x[1], depth + 1)
    return False


@dataclass
class Outcome:
    kind: str  # fall | return | raise | continue | break
    cond: Any  # absolute path condition (True or z3 Bool)
    value: Any
    env: dict


def zb(x):
    return z3.BoolVal(x) if isinstance(x, bool) else x


def conj(*xs):
    xs = [x for x in xs if x is not True]
    if any(x is False for x in xs):
        return False
    if not xs:
        return True
    return xs[0] if len(xs) == 1 else z3.And(*xs)


def neg(x):
    if isinstance(x, bool):
        return not x
    return z3.Not(x)


def disj(xs):
    xs = [x for x in xs if x is not False]
    if any(x is True for x in xs):
        return True
    if not xs:
        return False
    return xs[0] if len(xs) == 1 else z3.Or(*xs)


class Interp:
    def __init__(self, caps: dict | None = None, record: bool = False, stubs: dict | None = None) -> None:
        self.caps = caps if caps is not None else {}
        self.record = record
        self.maxlen: dict = {}
        self.stack: list[str] = []
        self.side: list[tuple] = []  # (site, n_expr, cap)
        self.funcs: dict[str, Any] = {}
        self.pending: list[tuple] = []  # (cond, exc) raised by the expression being evaluated
        self.stubs = stubs or {}  # callable -> replacement(interp, args, kwargs)
        self._src_cache: dict = {}
        self.fresh = 0
        self.cur_pc: Any = True  # path condition of the statement being executed (guards capacity side conditions)

    # ------------------------------------------------------------------ functions
    def _tree(self, fn):
        if fn not in self._src_cache:
            src = textwrap.dedent(inspect.getsource(fn))
            tree = ast.parse(src).body[0]
            self._src_cache[fn] = tree
            self.funcs[f"{fn.__module__}.{fn.__qualname__}"] = fn
        return self._src_cache[fn]

    def call_function(self, fn, args, kwargs):
        tree = self._tree(fn)
        a = tree.args
        params = [x.arg for x in a.posonlyargs + a.args]
        env: dict = {}
        for name, val in zip(params, args):
            env[name] = val
        if len(args) > len(params):
            raise Unsupported("*args call")
        for name, val in kwargs.items():
            env[name] = val
        glb = fn.__globals__
        for name, d in zip(params[len(params) - len(a.defaults):], a.defaults):
            if name not in env:
                env[name] = self.expr(d, {}, glb)
        for x, d in zip(a.kwonlyargs, a.kw_defaults):
            if x.arg not in env and d is not None:
                env[x.arg] = self.expr(d, {}, glb)
        self.stack.append(fn.__qualname__)
        if len(self.stack) > 40:
            raise Unsupported("recursion depth")
        base_pc = self.cur_pc
        try:
            outs = self.exec_block(tree.body, env, base_pc, glb)
        finally:
            self.stack.pop()
            self.cur_pc = base_pc
        rets = []
        for o in outs:
            if o.kind == "return":
                rets.append((o.cond, o.value))
            elif o.kind == "fall":
                rets.append((o.cond, None))
            elif o.kind == "raise":
                self.pending.append((o.cond, o.value))
            else:
                raise Unsupported(f"{o.kind} outside loop")
        if not rets:
            return Bottom()
        return self.merge_values(rets)

    # ------------------------------------------------------------------ merging
    def merge_values(self, alts: list[tuple[Any, Any]]):
        alts = [(c, v) for c, v in alts if c is not False]
        if len(alts) == 1:
            return alts[0][1]
        vals = [v for _, v in alts]
        if all(v is vals[0] for v in vals):
            return vals[0]
        if all(isinstance(v, (str, BStr)) for v in vals):
            if all(isinstance(v, str) for v in vals) and len(set(vals)) == 1:
                return vals[0]
            r = as_bstr(vals[-1])
            for c, v in reversed(alts[:-1]):
                r = core.ite_str(zb(c), as_bstr(v), r)
            return r
        if all(isinstance(v, bool) or z3.is_bool(v) for v in vals):
            r = zb(vals[-1])
            for c, v in reversed(alts[:-1]):
                r = z3.If(zb(c), zb(v), r)
            return r
        if all(isinstance(v, SymDict) for v in vals):
            # same construction history assumed: merge liveness entry-wise when shapes agree
            n = len(vals[0].entries)
            if all(len(v.entries) == n for v in vals) and all(all(v.entries[i][0] is vals[0].entries[i][0] for i in range(n)) for v in vals):
                d = SymDict()
                for i in range(n):
                    live = zb(vals[-1].entries[i][2])
                    for c, v in reversed(alts[:-1]):
                        live = z3.If(zb(c), zb(v.entries[i][2]), live)
                    d.entries.append([vals[0].entries[i][0], vals[0].entries[i][1], live])
                return d
        try:
            if all(not is_symbolic(v) for v in vals) and all(v == vals[0] for v in vals):
                return vals[0]
        except Exception:
            pass
        flat = []
        for c, v in alts:
            if isinstance(v, Choice):
                flat.extend((conj(c, c2), v2) for c2, v2 in v.alts)
            else:
                flat.append((c, v))
        return Choice(flat)

    def merge_envs(self, falls: list[Outcome]):
        if len(falls) == 1:
            return falls[0].env, falls[0].cond
        names = set()
        for o in falls:
            names |= set(o.env)
        env = {}
        for name in names:
            alts = [(o.cond, o.env[name]) for o in falls if name in o.env]
            if len(alts) < len(falls):
                # defined on some paths only: keep the defined value (reading it elsewhere would be a NameError)
                env[name] = self.merge_values(alts) if len(alts) > 1 else alts[0][1]
            else:
                env[name] = self.merge_values(alts)
        return env, disj([o.cond for o in falls])

    # ------------------------------------------------------------------ statements
    def exec_block(self, stmts, env, pc, glb) -> list[Outcome]:
        outs: list[Outcome] = []
        cur_env, cur_pc = env, pc
        for st in stmts:
            if cur_pc is False:
                break
            res = self.exec_stmt(st, cur_env, cur_pc, glb)
            falls = [o for o in res if o.kind == "fall" and o.cond is not False]
            outs += [o for o in res if o.kind != "fall" and o.cond is not False]
            if not falls:
                cur_pc = False
                break
            cur_env, cur_pc = self.merge_envs(falls)
        if cur_pc is not False:
            outs.append(Outcome("fall", cur_pc, None, cur_env))
        return outs

    def _flush(self, pc, env) -> tuple[list[Outcome], Any]:
        """Turn raises recorded while evaluating an expression into outcomes; return the surviving pc."""
        outs = []
        for c, exc in self.pending:
            outs.append(Outcome("raise", conj(pc, c), exc, env))
            pc = conj(pc, neg(c))
        self.pending = []
        return outs, pc

    def exec_stmt(self, st, env, pc, glb) -> list[Outcome]:
        self.cur_pc = pc
        if isinstance(st, ast.Expr):
            if isinstance(st.value, ast.Constant):
                return [Outcome("fall", pc, None, env)]
            self.expr(st.value, env, glb)
            outs, pc = self._flush(pc, env)
            return outs + [Outcome("fall", pc, None, env)]
        if isinstance(st, (ast.Assign, ast.AnnAssign, ast.AugAssign)):
            if isinstance(st, ast.AugAssign):
                if not isinstance(st.op, ast.Add):
                    raise Unsupported("augassign op")
                cur = self.expr(st.target, env, glb)
                val = self.add(cur, self.expr(st.value, env, glb))
                targets = [st.target]
            elif isinstance(st, ast.AnnAssign):
                if st.value is None:
                    return [Outcome("fall", pc, None, env)]
                val = self.expr(st.value, env, glb)
                targets = [st.target]
            else:
                val = self.expr(st.value, env, glb)
                targets = st.targets
            outs, pc = self._flush(pc, env)
            env = dict(env)
            for t in targets:
                self.assign(t, val, env, glb, pc)
            return outs + [Outcome("fall", pc, None, env)]
        if isinstance(st, ast.Return):
            val = self.expr(st.value, env, glb) if st.value is not None else None
            outs, pc = self._flush(pc, env)
            return outs + [Outcome("return", pc, val, env)]
        if isinstance(st, ast.Raise):
            exc = self.expr(st.exc, env, glb) if st.exc is not None else None
            outs, pc = self._flush(pc, env)
            return outs + [Outcome("raise", pc, exc, env)]
        if isinstance(st, ast.Pass):
            return [Outcome("fall", pc, None, env)]
        if isinstance(st, ast.Continue):
            return [Outcome("continue", pc, None, env)]
        if isinstance(st, ast.Break):
            return [Outcome("break", pc, None, env)]
        if isinstance(st, ast.If):
            t = self.truth(self.expr(st.test, env, glb))
            outs, pc = self._flush(pc, env)
            if t is True:
                return outs + self.exec_block(st.body, env, pc, glb)
            if t is False:
                return outs + self.exec_block(st.orelse, env, pc, glb)
            a = self.exec_block(st.body, self.fork_env(env), conj(pc, t), glb)
            b = self.exec_block(st.orelse, self.fork_env(env), conj(pc, neg(t)), glb)
            return outs + a + b
        if isinstance(st, ast.For):
            it = self.expr(st.iter, env, glb)
            outs, pc = self._flush(pc, env)
            if is_symbolic(it) and not isinstance(it, (list, tuple)):
                raise Unsupported(f"for over {type(it).__name__}")
            items = list(it)
            cur_env, cur_pc = env, pc
            breaks: list[Outcome] = []
            for item in items:
                if cur_pc is False:
                    break
                e2 = dict(cur_env)
                self.assign(st.target, item, e2, glb, cur_pc)
                res = self.exec_block(st.body, e2, cur_pc, glb)
                nxt = [o for o in res if o.kind in ("fall", "continue")]
                breaks += [o for o in res if o.kind == "break"]
                outs += [o for o in res if o.kind in ("return", "raise")]
                if not nxt:
                    cur_pc = False
                    break
                cur_env, cur_pc = self.merge_envs([Outcome("fall", o.cond, None, o.env) for o in nxt])
            if st.orelse:
                raise Unsupported("for-else")
            ends = ([Outcome("fall", cur_pc, None, cur_env)] if cur_pc is not False else []) + [Outcome("fall", o.cond, None, o.env) for o in breaks]
            if not ends:
                return outs
            e, c = self.merge_envs(ends)
            return outs + [Outcome("fall", c, None, e)]
        if isinstance(st, ast.Try):
            if st.finalbody or st.orelse:
                raise Unsupported("try/finally/else")
            res = self.exec_block(st.body, env, pc, glb)
            outs = []
            for o in res:
                if o.kind != "raise":
                    outs.append(o)
                    continue
                handled = False
                for h in st.handlers:
                    htype = self.expr(h.type, env, glb) if h.type is not None else BaseException
                    exc_cls = o.value if inspect.isclass(o.value) else type(o.value)
                    if isinstance(htype, tuple):
                        ok = any(issubclass(exc_cls, t) for t in htype)
                    else:
                        ok = issubclass(exc_cls, htype)
                    if ok:
                        e2 = dict(o.env)
                        if h.name:
                            e2[h.name] = o.value
                        outs += self.exec_block(h.body, e2, o.cond, glb)
                        handled = True
                        break
                if not handled:
                    outs.append(o)
            return outs
        if isinstance(st, (ast.Import, ast.ImportFrom)):
            env = dict(env)
            mod = inspect.getmodule(self.funcs[next(reversed(self.funcs))]) if self.funcs else None
            # execute the import for real in the function's module namespace
            code = compile(ast.Module([st], []), "<interp-import>", "exec")
            ns = dict(glb)
            exec(code, ns)  # noqa: S102 - the import statement of the real source
            for alias in st.names:
                nm = (alias.asname or alias.name).split(".")[0]
                env[nm] = ns[nm]
            del mod
            return [Outcome("fall", pc, None, env)]
        raise Unsupported(f"statement {type(st).__name__} at line {getattr(st, 'lineno', '?')}")

    def fork_env(self, env):
        return {k: (v.copy() if isinstance(v, SymDict) else v) for k, v in env.items()}

    def assign(self, target, val, env, glb, pc) -> None:
        if isinstance(target, ast.Name):
            env[target.id] = val
        elif isinstance(target, (ast.Tuple, ast.List)):
            if is_symbolic(val) and not isinstance(val, (tuple, list)):
                raise Unsupported("unpack symbolic")
            vals = list(val)
            if len(vals) != len(target.elts):
                raise Unsupported("unpack arity")
            for t, v in zip(target.elts, vals):
                self.assign(t, v, env, glb, pc)
        elif isinstance(target, ast.Subscript):
            base = self.expr(target.value, env, glb)
            key = self.expr(target.slice, env, glb)
            if isinstance(base, SymDict):
                base.set(key, val, pc)
            elif isinstance(base, dict) and not is_symbolic(key):
                base[key] = val
            elif isinstance(base, dict):
                # promote a concrete dict to a SymDict in place of the variable
                if not isinstance(target.value, ast.Name):
                    raise Unsupported("symbolic key store into nested dict")
                d = SymDict()
                for k, v in base.items():
                    d.set(k, v, True)
                d.set(key, val, pc)
                env[target.value.id] = d
            else:
                raise Unsupported("subscript store")
        elif isinstance(target, ast.Attribute):
            base = self.expr(target.value, env, glb)
            if is_symbolic(base):
                raise Unsupported("attribute store on symbolic")
            try:
                object.__setattr__(base, target.attr, val)
            except Exception as e:
                raise Unsupported(f"attribute store: {e}")
        else:
            raise Unsupported(f"assign target {type(target).__name__}")

    # ------------------------------------------------------------------ expressions
    def site(self, node) -> tuple:
        return (tuple(self.stack), getattr(node, "lineno", 0), getattr(node, "col_offset", 0), type(node).__name__)

    def expr(self, e, env, glb):
        r = self._expr(e, env, glb)
        if isinstance(r, str) and self.record:
            s = self.site(e)
            if len(r) > self.maxlen.get(s, -1):
                self.maxlen[s] = len(r)
        elif isinstance(r, BStr) and not self.record and r.cap > 1 and isinstance(e, (ast.Call, ast.JoinedStr, ast.BinOp, ast.IfExp, ast.Subscript)):
            s = self.site(e)
            cap = self.caps.get(s)
            if cap is not None and r.cap > cap:
                self.side.append((s, r.n, cap, self.cur_pc))
                r = core.truncate(r, cap)
        return r

    def truth(self, v):
        if isinstance(v, bool):
            return v
        if v is None:
            return False
        if z3.is_expr(v):
            v = z3.simplify(v)
            return True if z3.is_true(v) else False if z3.is_false(v) else v
        if isinstance(v, BStr):
            return self.truth(v.n != lv(0))
        if isinstance(v, SymDict):
            return self.truth(v.size() != lv(0))
        if isinstance(v, Bottom):
            return False
        if isinstance(v, (Opaque, Choice, SegList, WordVec, CharVec, BoolVec, SplitPieces)):
            raise Unsupported(f"truth of {type(v).__name__}")
        return bool(v)

    def add(self, a, b):
        if isinstance(a, (str, BStr)) and isinstance(b, (str, BStr)):
            if isinstance(a, str) and isinstance(b, str):
                return a + b
            return core.concat([a, b])
        if not is_symbolic(a) and not is_symbolic(b):
            return a + b
        raise Unsupported("+ on symbolic non-strings")

    def _expr(self, e, env, glb):
        if isinstance(e, ast.Constant):
            return e.value
        if isinstance(e, ast.Name):
            if e.id in env:
                return env[e.id]
            if e.id in glb:
                return glb[e.id]
            if hasattr(builtins, e.id):
                return getattr(builtins, e.id)
            raise Unsupported(f"unbound name {e.id}")
        if isinstance(e, ast.JoinedStr):
            parts = []
            for v in e.values:
                if isinstance(v, ast.Constant):
                    parts.append(v.value)
                else:
                    val = self.expr(v.value, env, glb)
                    if v.format_spec is not None:
                        raise Unsupported("format spec")
                    if v.conversion == 114:  # !r
                        val = self.call(repr, [val], {})
                    elif v.conversion != -1:
                        raise Unsupported("conversion")
                    elif not isinstance(val, (str, BStr)):
                        val = self.call(str, [val], {})
                    parts.append(val)
            if all(isinstance(p, str) for p in parts):
                return "".join(parts)
            return core.concat(parts)
        if isinstance(e, ast.UnaryOp):
            o = self.expr(e.operand, env, glb)
            if isinstance(e.op, ast.Not):
                if isinstance(o, BoolVec):
                    return BoolVec([z3.Not(x) for x in o.vals], o.guard)
                return neg(self.truth(o))
            if isinstance(e.op, ast.USub) and not is_symbolic(o):
                return -o
            raise Unsupported("unary op")
        if isinstance(e, ast.BoolOp):
            # short-circuit: later operands are only evaluated under the guard of the earlier ones
            is_or = isinstance(e.op, ast.Or)
            vals = []
            guard: Any = True  # later operands are only evaluated when the earlier ones did not decide
            for sub in e.values:
                mark = len(self.pending)
                saved_pc = self.cur_pc
                self.cur_pc = conj(saved_pc, guard)
                v = self.expr(sub, env, glb)
                self.cur_pc = saved_pc
                if guard is not True:
                    self.pending[mark:] = [(conj(guard, c), x) for c, x in self.pending[mark:]]
                t = self.truth(v)
                vals.append((v, t))
                if (is_or and t is True) or (not is_or and t is False):
                    break
                guard = conj(guard, neg(t) if is_or else t)
            if all(isinstance(t, bool) for _, t in vals):
                # python returns the deciding operand
                for v, t in vals:
                    if t is is_or:
                        return v
                return vals[-1][0]
            ts = [zb(t) for _, t in vals]
            return z3.Or(ts) if is_or else z3.And(ts)
        if isinstance(e, ast.IfExp):
            t = self.expr(e.test, env, glb)
            if isinstance(t, BoolVec):
                return wordvec_ite(t, self.expr(e.body, env, glb), self.expr(e.orelse, env, glb))
            t = self.truth(t)
            if t is True:
                return self.expr(e.body, env, glb)
            if t is False:
                return self.expr(e.orelse, env, glb)
            saved = self.cur_pc
            self.cur_pc = conj(saved, t)
            a = self.expr(e.body, env, glb)
            self.cur_pc = conj(saved, neg(t))
            b = self.expr(e.orelse, env, glb)
            self.cur_pc = saved
            return self.merge_values([(t, a), (neg(t), b)])
        if isinstance(e, ast.Compare):
            return self.compare(e, env, glb)
        if isinstance(e, ast.BinOp):
            l, r = self.expr(e.left, env, glb), self.expr(e.right, env, glb)
            if isinstance(e.op, ast.Add):
                return self.add(l, r)
            if isinstance(e.op, ast.Mod) and isinstance(l, str) and not is_symbolic(r):
                return l % r
            if not is_symbolic(l) and not is_symbolic(r):
                import operator as op

                table = {ast.Sub: op.sub, ast.Mult: op.mul, ast.BitOr: op.or_, ast.BitAnd: op.and_, ast.Mod: op.mod, ast.FloorDiv: op.floordiv, ast.Div: op.truediv}
                if type(e.op) in table:
                    return table[type(e.op)](l, r)
            raise Unsupported(f"binop {type(e.op).__name__}")
        if isinstance(e, ast.Attribute):
            base = self.expr(e.value, env, glb)
            if isinstance(base, (BStr, CharVec, WordVec, SymDict)) or (isinstance(base, str) and e.attr in _STR_METHODS):
                return ("method", base, e.attr)
            if isinstance(base, (Choice, Opaque, Bottom, SegList)):
                raise Unsupported(f"attribute {e.attr} of {type(base).__name__}")
            return getattr(base, e.attr)
        if isinstance(e, ast.Subscript):
            base = self.expr(e.value, env, glb)
            if isinstance(base, BStr):
                return self.subscript_str(base, e.slice, env, glb)
            idx = self.slice_value(e.slice, env, glb)
            if isinstance(base, SymDict):
                raise Unsupported("SymDict lookup")
            if is_symbolic(idx):
                raise Unsupported("symbolic index")
            if isinstance(base, tuple) and len(base) == 3 and base[0] == "method":
                raise Unsupported("subscript of method")
            return base[idx]
        if isinstance(e, (ast.GeneratorExp, ast.ListComp, ast.SetComp)):
            return self.comprehension(e, env, glb)
        if isinstance(e, ast.Call):
            f = self.expr(e.func, env, glb)
            args = []
            for a in e.args:
                if isinstance(a, ast.Starred):
                    args.extend(list(self.expr(a.value, env, glb)))
                else:
                    args.append(self.expr(a, env, glb))
            kwargs = {}
            for k in e.keywords:
                if k.arg is None:
                    kwargs.update(self.expr(k.value, env, glb))
                else:
                    kwargs[k.arg] = self.expr(k.value, env, glb)
            return self.call(f, args, kwargs)
        if isinstance(e, ast.Tuple):
            return tuple(self.expr(x, env, glb) for x in e.elts)
        if isinstance(e, ast.List):
            return [self.expr(x, env, glb) for x in e.elts]
        if isinstance(e, ast.Set):
            return {self.expr(x, env, glb) for x in e.elts}
        if isinstance(e, ast.Dict):
            ks = [self.expr(k, env, glb) for k in e.keys]
            vs = [self.expr(v, env, glb) for v in e.values]
            if any(is_symbolic(k) for k in ks):
                d = SymDict()
                for k, v in zip(ks, vs):
                    d.set(k, v, True)
                return d
            return dict(zip(ks, vs))
        if isinstance(e, ast.NamedExpr):
            v = self.expr(e.value, env, glb)
            env[e.target.id] = v
            return v
        raise Unsupported(f"expression {type(e).__name__} at line {getattr(e, 'lineno', '?')}")

    def slice_value(self, sl, env, glb):
        if isinstance(sl, ast.Slice):
            lo = self.expr(sl.lower, env, glb) if sl.lower else None
            hi = self.expr(sl.upper, env, glb) if sl.upper else None
            st = self.expr(sl.step, env, glb) if sl.step else None
            return slice(lo, hi, st)
        return self.expr(sl, env, glb)

    def subscript_str(self, s: BStr, sl, env, glb):
        idx = self.slice_value(sl, env, glb)
        if isinstance(idx, slice):
            if idx.step is not None:
                raise Unsupported("slice step")
            lo, hi = idx.start, idx.stop
            r = s
            if hi is not None:
                if hi >= 0:
                    r = core.take_first(r, hi)
                else:
                    r = core.drop_last(r, -hi)
            if lo is not None:
                if lo < 0:
                    raise Unsupported("negative slice start")
                r = core.drop_first(r, lo)
            return r
        if isinstance(idx, int):
            if idx >= 0:
                if idx >= s.cap:
                    self.pending.append((True, IndexError("string index out of range")))
                    return Bottom()
                self.pending.append((z3.Not(inb(s, idx)), IndexError("string index out of range")))
                return BStr([s.ch[idx]], lv(1))
            if idx == -1:
                self.pending.append((s.n == lv(0), IndexError("string index out of range")))
                return BStr([core.last_char(s)], lv(1))
        raise Unsupported("string subscript")

    def compare(self, e, env, glb):
        left = self.expr(e.left, env, glb)
        res = []
        for op, comp in zip(e.ops, e.comparators):
            right = self.expr(comp, env, glb)
            res.append(self.compare1(op, left, right))
            left = right
        if len(res) == 1:
            return res[0]
        ts = [self.truth(r) for r in res]
        if all(isinstance(t, bool) for t in ts):
            return all(ts)
        return z3.And([zb(t) for t in ts])

    def compare1(self, op, l, r):
        if isinstance(op, (ast.Is, ast.IsNot)):
            if is_symbolic(l) or is_symbolic(r):
                # identity with None/True/False of a symbolic string or bool is decidable: never identical
                if r is None or l is None:
                    same = False
                else:
                    raise Unsupported("`is` on symbolic values")
            else:
                same = l is r
            return same if isinstance(op, ast.Is) else not same
        if isinstance(op, (ast.Eq, ast.NotEq)):
            if isinstance(l, (str, BStr)) and isinstance(r, (str, BStr)):
                v = core.eq(l, r)
                v = self.truth(v)
            elif z3.is_bool(l) or z3.is_bool(r):
                v = zb(l) == zb(r)
            elif is_symbolic(l) or is_symbolic(r):
                if isinstance(l, (str, BStr)) or isinstance(r, (str, BStr)):
                    v = False  # a str never equals a non-str
                else:
                    raise Unsupported("== on symbolic values")
            else:
                v = l == r
            return v if isinstance(op, ast.Eq) else neg(v)
        if isinstance(op, (ast.In, ast.NotIn)):
            if isinstance(r, SymDict):
                v = r.contains(l)
            elif isinstance(l, (BStr,)) and isinstance(r, (set, frozenset, tuple, list, dict)):
                if any(isinstance(w, BStr) for w in r):
                    v = z3.Or([core.eq(l, w) for w in r if isinstance(w, (str, BStr))])
                else:
                    v = core.in_words(l, [w for w in r if isinstance(w, str)])
            elif isinstance(l, str) and isinstance(r, BStr):
                if len(l) == 1:
                    v = core.contains_char(r, l)
                elif len(l) == 0:
                    v = True
                else:
                    raise Unsupported("substring test")
            elif isinstance(l, str) and isinstance(r, (set, frozenset, tuple, list)) and any(isinstance(w, BStr) for w in r):
                v = z3.Or([core.eq(l, w) for w in r if isinstance(w, (str, BStr))])
            elif not is_symbolic(l) and not is_symbolic(r):
                v = l in r
            else:
                raise Unsupported(f"`in` with {type(l).__name__} / {type(r).__name__}")
            v = self.truth(v)
            return v if isinstance(op, ast.In) else neg(v)
        if not is_symbolic(l) and not is_symbolic(r):
            import operator as o

            table = {ast.Lt: o.lt, ast.LtE: o.le, ast.Gt: o.gt, ast.GtE: o.ge}
            return table[type(op)](l, r)
        raise Unsupported(f"comparison {type(op).__name__} on symbolic")

    def comprehension(self, e, env, glb):
        if len(e.generators) != 1:
            raise Unsupported("nested comprehension")
        g = e.generators[0]
        it = self.expr(g.iter, env, glb)
        if isinstance(it, BStr):
            if g.ifs or not isinstance(g.target, ast.Name):
                raise Unsupported("filtered comprehension over characters")
            return self.expr(e.elt, {**env, g.target.id: CharVec(it)}, glb)
        if isinstance(it, SegList):
            if g.ifs or not isinstance(g.target, ast.Name):
                raise Unsupported("filtered comprehension over words")
            r = self.expr(e.elt, {**env, g.target.id: WordVec(it)}, glb)
            return r.sl if isinstance(r, WordVec) else r
        if is_symbolic(it) and not isinstance(it, (list, tuple)):
            raise Unsupported(f"comprehension over {type(it).__name__}")
        out = []
        for item in it:
            e2 = dict(env)
            self.assign(g.target, item, e2, glb, True)
            keep = True
            for cond in g.ifs:
                t = self.truth(self.expr(cond, e2, glb))
                if not isinstance(t, bool):
                    raise Unsupported("symbolic filter in comprehension")
                keep = keep and t
            if keep:
                out.append(self.expr(e.elt, e2, glb))
        if isinstance(e, ast.SetComp):
            if any(is_symbolic(x) for x in out):
                raise Unsupported("set of symbolic")
            return set(out)
        return out

    # ------------------------------------------------------------------ calls
    def call(self, f, args, kwargs):
        if f in self.stubs:
            return self.stubs[f](self, args, kwargs)
        if isinstance(f, tuple) and len(f) == 3 and f[0] == "method":
            return self.call_method(f[1], f[2], args, kwargs)
        # repo code is always interpreted (so that sites are recorded and symbolic values flow)
        if inspect.isfunction(f) and (f.__module__ or "").startswith(REPO_PKG):
            return self.call_function(f, args, kwargs)
        if inspect.ismethod(f) and (f.__func__.__module__ or "").startswith(REPO_PKG):
            return self.call_function(f.__func__, [f.__self__] + args, kwargs)
        if inspect.isclass(f) and (f.__module__ or "").startswith(REPO_PKG):
            if "__new__" in f.__dict__ and issubclass(f, str):
                new = f.__dict__["__new__"]
                new = new.__func__ if isinstance(new, staticmethod) else new
                return self.call_function(new, [f] + args, kwargs)
            return self.construct(f, args, kwargs)
        if not any(is_symbolic(a) for a in args) and not any(is_symbolic(v) for v in kwargs.values()):
            return self.call_concrete(f, args, kwargs)
        return self.call_symbolic(f, args, kwargs)

    def construct(self, cls, args, kwargs):
        """Instantiate a repo dataclass / attrs class with (possibly symbolic) field values."""
        try:
            return cls(*args, **kwargs)
        except Exception as e:
            raise Unsupported(f"constructing {cls.__name__}: {e}")

    def call_concrete(self, f, args, kwargs):
        if f is str.__new__:
            return args[1]
        try:
            if f in (any, all) and args and isinstance(args[0], list):
                return f(bool(x) for x in args[0])
            return f(*args, **kwargs)
        except Exception as ex:
            self.pending.append((True, ex))
            return Bottom()

    def call_method(self, base, name, args, kwargs):
        if isinstance(base, str) and not any(is_symbolic(a) for a in args):
            try:
                return getattr(base, name)(*args, **kwargs)
            except Exception as ex:
                self.pending.append((True, ex))
                return Bottom()
        if isinstance(base, str) and name == "join":
            (x,) = args
            if isinstance(x, SegList):
                return seg_join(base, x)
            if isinstance(x, SplitPieces):
                return split_join(base, x)
            if isinstance(x, (list, tuple)) and all(isinstance(p, (str, BStr)) for p in x):
                parts = []
                for i, p in enumerate(x):
                    if i and base:
                        parts.append(base)
                    parts.append(p)
                return core.concat(parts) if parts else ""
            raise Unsupported(f"join of {type(x).__name__}")
        if isinstance(base, str):
            base = const_str(base)
        if isinstance(base, CharVec):
            table = {"isupper": core.P_UPPER, "islower": core.P_LOWER, "isalpha": core.P_ALPHA, "isdigit": core.P_DIGIT}
            if name not in table:
                raise Unsupported(f"char method {name}")
            p = table[name]
            return BoolVec([p(base.s.ch[i]) for i in range(base.s.cap)], [inb(base.s, i) for i in range(base.s.cap)])
        if isinstance(base, WordVec):
            if name not in ("isupper", "islower", "capitalize", "lower", "upper"):
                raise Unsupported(f"word method {name}")
            return getattr(base, name)(*args)
        if isinstance(base, SymDict):
            if name == "get" and len(args) >= 1:
                raise Unsupported("SymDict.get")
            raise Unsupported(f"SymDict.{name}")
        if isinstance(base, BStr):
            s = base
            if name == "lower":
                return core.lower(s)
            if name == "upper":
                return core.upper(s)
            if name == "capitalize":
                return core.capitalize(s)
            if name == "isidentifier":
                return core.isidentifier(s)
            if name == "isupper":
                return core.str_isupper(s)
            if name == "islower":
                return core.str_islower(s)
            if name == "isalpha":
                return z3.And(s.n != lv(0), core.all_char(s, core.P_ALPHA))
            if name == "isdigit":
                return z3.And(s.n != lv(0), core.all_char(s, core.P_DIGIT))
            if name == "isascii":
                return core.all_char(s, core.P_ASCII)
            if name == "startswith":
                (p,) = args
                if isinstance(p, tuple):
                    return z3.Or([core.startswith(s, q) for q in p])
                if not isinstance(p, str):
                    raise Unsupported("startswith symbolic prefix")
                return core.startswith(s, p)
            if name == "endswith":
                (p,) = args
                if isinstance(p, tuple):
                    return z3.Or([core.endswith(s, q) for q in p])
                if not isinstance(p, str):
                    raise Unsupported("endswith symbolic suffix")
                return core.endswith(s, p)
            if name == "replace":
                a, b = args
                if not (isinstance(a, str) and isinstance(b, str)):
                    raise Unsupported("replace with symbolic args")
                if len(a) == 0:
                    raise Unsupported("replace of the empty pattern")
                return core.replace_str(s, a, b)
            if name == "format":
                raise Unsupported("str.format")
            if name == "split":
                raise Unsupported("str.split")
            if name == "encode":
                raise Unsupported("str.encode")
            raise Unsupported(f"str method {name}")
        raise Unsupported(f"method {name} on {type(base).__name__}")

    def call_symbolic(self, f, args, kwargs):
        if f is str.__new__:
            return args[1]
        if f in (enumerate, list, tuple, zip, reversed, range) and all(isinstance(a, (list, tuple, int)) for a in args):
            return list(f(*args, **kwargs))
        if f is str:
            (x,) = args
            if isinstance(x, (BStr, str)):
                return x
            if isinstance(x, Opaque) and x.tag == "float":
                return self.stub_str_float(x)
            raise Unsupported(f"str({type(x).__name__})")
        if f is repr:
            (x,) = args
            if isinstance(x, BStr):
                return core.str_repr(x)
            raise Unsupported(f"repr({type(x).__name__})")
        if f is len:
            (x,) = args
            if isinstance(x, BStr):
                return x.n
            if isinstance(x, SymDict):
                return x.size()
            raise Unsupported("len")
        if f is bool:
            return self.truth(args[0])
        if f is isinstance:
            x, t = args
            ts = t if isinstance(t, tuple) else (t,)
            if isinstance(x, BStr):
                return str in ts or object in ts
            if z3.is_bool(x):
                return bool in ts or int in ts
            if isinstance(x, SymDict):
                return dict in ts
            if isinstance(x, Opaque):
                return {"float": float}.get(x.tag) in ts
            raise Unsupported(f"isinstance({type(x).__name__})")
        if f is any or f is all:
            (v,) = args
            if isinstance(v, BoolVec):
                if f is any:
                    return z3.Or([z3.And(g, x) for g, x in zip(v.guard, v.vals)]) if v.vals else FALSE
                return z3.And([z3.Or(z3.Not(g), x) for g, x in zip(v.guard, v.vals)]) if v.vals else TRUE
            if isinstance(v, (list, tuple)):
                ts = [zb(self.truth(x)) for x in v]
                return (z3.Or(ts) if f is any else z3.And(ts)) if ts else (f is all)
            raise Unsupported("any/all")
        if f is re.sub:
            pat, repl, s = args[:3]
            if repl != "" or not isinstance(s, BStr) or not isinstance(pat, str):
                raise Unsupported("re.sub with non-empty replacement")
            sc = Scan(pat, s)
            return core.remove_chars(s, sc.inm)
        if f is re.split:
            pat, s = args[:2]
            if not (isinstance(pat, str) and pat.startswith("(") and pat.endswith(")")):
                raise Unsupported("re.split without a capture group around the whole pattern")
            return SplitPieces(s, Scan(pat, s))
        if f is re.findall:
            pat, s = args[:2]
            if isinstance(pat, re.Pattern):
                pat = pat.pattern
            sc = Scan(pat, s)
            if sc.has_group:
                return SegList([[s.ch[i]] for i in range(s.cap)], [z3.If(sc.ing[i], lv(1), lv(0)) for i in range(s.cap)], sc.gstarts, sc.ing)
            return SegList([[s.ch[i]] for i in range(s.cap)], [z3.If(sc.inm[i], lv(1), lv(0)) for i in range(s.cap)], sc.starts, sc.inm)
        if f is keyword.iskeyword:
            (s,) = args
            return core.iskeyword(s)
        if f is float:
            return self.stub_float(args[0])
        if inspect.isclass(f) and issubclass(f, BaseException):
            return f.__new__(f)  # message content is irrelevant to every obligation
        if getattr(f, "__name__", "") == "cast" and getattr(f, "__module__", "") == "typing":
            return args[1]
        raise Unsupported(f"call of {getattr(f, '__qualname__', f)} on symbolic arguments")

    # ------------------------------------------------------------------ nondeterministic stubs
    def stub_float(self, x):
        """float(<str>): raises ValueError or returns an arbitrary float — contract only."""
        if not isinstance(x, BStr):
            raise Unsupported("float of non-str symbolic")
        self.fresh += 1
        ok = z3.Bool(f"float_accepts_{self.fresh}")
        self.pending.append((z3.Not(ok), ValueError("could not convert string to float")))
        return Opaque("float", {"accepts": ok, "id": self.fresh})

    def stub_str_float(self, x: Opaque):
        """str(<float>): finite literal | 'inf' | '-inf' | 'nan' chosen by fresh Booleans."""
        i = x.payload["id"]
        kind = z3.BitVec(f"float_kind_{i}", 2)
        x.payload["kind"] = kind
        fin = const_str("1.5")
        return core.ite_str(kind == 0, fin, core.ite_str(kind == 1, const_str("inf"), core.ite_str(kind == 2, const_str("-inf"), const_str("nan"))))


_STR_METHODS = {
    "join", "lower", "upper", "capitalize", "isidentifier", "isupper", "islower", "isalpha", "isdigit", "isascii",
    "startswith", "endswith", "replace", "format", "split", "encode", "strip", "title",
}


# ------------------------------------------------------------------------------------------------ encoding driver
class Encoded:
    """A repo function applied to symbolic string inputs: result term(s), side conditions, bookkeeping."""

    def __init__(self, fn: Callable, make_args: Callable[[list], tuple[list, dict]], K: int, n_inputs: int = 1, shadow_inputs: list | None = None, stubs: dict | None = None, names: list[str] | None = None, exact: bool = False) -> None:
        """make_args(inputs) -> (args, kwargs) for `fn`, where inputs is a list of BStr (symbolic) or str (shadow)."""
        self.fn, self.K = fn, K
        names = names or [f"v{i}" for i in range(n_inputs)]
        self.inputs, self.base = [], []
        for nm in names:
            v, b = core.sym_input(K, nm, exact=exact)
            self.inputs.append(v)
            self.base += b
        # shadow runs -> capacity guesses
        rec = Interp(record=True, stubs=stubs)
        self.shadow_runs = 0
        for tup in shadow_inputs or []:
            try:
                a, kw = make_args(list(tup))
                rec.pending = []
                rec.call(fn, a, kw)
                self.shadow_runs += 1
            except Unsupported:
                raise
        self.caps = dict(rec.maxlen)
        self.make_args, self.stubs = make_args, stubs
        self.build()

    def build(self) -> None:
        it = Interp(caps=self.caps, stubs=self.stubs)
        a, kw = self.make_args(list(self.inputs))
        self.result = it.call(self.fn, a, kw)
        self.raises = list(it.pending)
        self.side = list(it.side)
        self.funcs = dict(it.funcs)
        self.interp = it

    def side_condition(self):
        """True iff some truncation was too small for the given input."""
        return z3.Or([z3.And(zb(pc), z3.UGT(n, lv(cap))) for _, n, cap, pc in self.side]) if self.side else FALSE

    def check_caps(self, extra: list | None = None, timeout_ms: int = 120000, max_rounds: int = 12) -> tuple[bool, int, float]:
        """Discharge the truncation side conditions; on a counterexample enlarge the guesses and rebuild (CEGAR)."""
        import time

        t0, rounds = time.time(), 0
        while True:
            rounds += 1
            if not self.side:
                return True, rounds, time.time() - t0
            s = z3.Solver()
            s.set("timeout", timeout_ms)
            s.add(*self.base)
            if extra:
                s.add(*extra)
            s.add(self.side_condition())
            r = str(s.check())
            if r == "unsat":
                return True, rounds, time.time() - t0
            if r != "sat" or rounds >= max_rounds:
                return False, rounds, time.time() - t0
            m = s.model()
            for site, n, cap, pc in self.side:
                nv = m.eval(n, model_completion=True).as_long()
                if nv > cap and z3.is_true(m.eval(zb(pc), model_completion=True)):
                    self.caps[site] = max(self.caps.get(site, 0), nv)
            # also re-run the shadow on the witness to learn all sites at once
            try:
                rec = Interp(record=True, stubs=self.stubs)
                a, kw = self.make_args([core.decode(m, v) for v in self.inputs])
                rec.call(self.fn, a, kw)
                for site, L in rec.maxlen.items():
                    if L > self.caps.get(site, -1):
                        self.caps[site] = L
            except Exception:
                pass
            self.build()
