#!/bin/bash
# Build the overlay venv used by every check: /venv's site-packages (the repo's own environment, /repo is an
# editable install there) + crosshair-tool, z3-solver, cvc5 from the offline wheelhouse.  Idempotent.
set -e
cd "$(dirname "$0")"
if [ -x .venv/bin/python ] && .venv/bin/python -c "import crosshair, z3, cvc5, openapi_python_client" 2>/dev/null; then
  exit 0
fi
rm -rf .venv
/venv/bin/python -m venv .venv
SP=$(.venv/bin/python -c "import site; print(site.getsitepackages()[0])")
printf '%s\n' "import site; site.addsitedir('/venv/lib/python3.12/site-packages')" > "$SP/zz_overlay.pth"
PIP_NO_INDEX=1 .venv/bin/pip install -q --no-index --find-links /opt/veriftools/wheels crosshair-tool z3-solver cvc5
.venv/bin/python -c "import crosshair, z3, cvc5, openapi_python_client; print('overlay venv ok', z3.get_version_string())"
