"""C10 — absent, null and present stay three distinct states."""
from __future__ import annotations

from ..common import Ob
from ..e3 import replay, skeleton_obs  # noqa: F401

META = {
    "level": "model_checking",
    "assumptions": ["document shape is bounded by the skeleton family; instances and arguments are symbolic inside each skeleton"],
}


def obligations(tier: str) -> list[Ob]:
    obs = skeleton_obs("C10", "model", ["tri_", "reqd_"], tier, label="tristate")
    obs += skeleton_obs("C10", "endpoint", ["req_"], tier, names=["params"], label="unset-not-sent")
    return obs
