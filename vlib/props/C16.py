"""C16 — each configuration option has exactly its documented effect (behavioural options are decided)."""
from __future__ import annotations

from ..common import Ob
from ..e2 import harness_ob
from ..e3 import skeleton_obs

META = {
    "level": "model_checking",
    "assumptions": ["'metadata flavour, file encoding, custom template directory and post-hook list affect only the files they are documented to affect' is a file-tree relation with no solver content: it is only exercised by the replay oracle"],
}


def replay(w: dict) -> dict:
    if w.get("skeleton"):
        from ..e3 import replay as r3

        return r3(w)
    if w.get("input", {}).get("option"):
        from ..replay_checks import replay_option_effect

        return replay_option_effect(w)
    from ..e2 import replay as r2

    return r2(w)


def obligations(tier: str) -> list[Ob]:
    q = tier == "quick"
    obs: list[Ob] = [
        harness_ob(
            "parser_options", "C16_config.py", tier, timeout=200 if q else 600, cpus=4, replay_func="vlib.props.C16:replay",
            encoded=["openapi_python_client.utils:get_content_type", "openapi_python_client.parser.bodies:body_from_data", "openapi_python_client.parser.properties.schemas:Class.from_string", "openapi_python_client.config:Config.from_sources"],
            bounds={"media types": 8, "override targets": 4, "class_overrides": 5, "metadata flavours": 4},
        ),
        harness_ob(
            "generate_all_tags", "C07_accounting.py", tier, funcs=["accounting_tags"], timeout=330 if q else 900, cpus=1, replay_func="vlib.props.C16:replay",
            encoded=["openapi_python_client.parser.openapi:EndpointCollection.from_data"],
            stubs=["Endpoint.from_data -> arbitrary Endpoint | ParseError"],
        ),
    ]
    obs.append(
        harness_ob(
            "tag_directories", "C16_tags.py", tier, timeout=200 if q else 600, cpus=1, replay_func="vlib.props.C16:replay",
            encoded=["openapi_python_client:Project._build_api", "openapi_python_client:Project.build"],
            stubs=["template rendering -> a marker naming the endpoint it was asked to render; Path.mkdir / write_text / shutil.rmtree recorded"],
            bounds={"operations": "5 (two whose module names coincide under disjoint tag sets, one with three tags, one untagged)", "generate_all_tags": "both"},
        )
    )
    # behaviour-preserving options: the regenerated client satisfies the very same document-derived oracles
    variants = [
        ("field_prefix", {"field_prefix": "fp_"}, ["scalars", "enums"], ["params"]),
        ("no_path_prefixes", {"use_path_prefixes_for_title_model_names": False}, ["nested"], ["responses"]),
        ("docstrings_on_attributes", {"docstrings_on_attributes": True}, ["scalars", "defaults"], ["bodies"]),
        ("literal_enums", {"literal_enums": True}, ["enums"], ["params"]),
        ("class_overrides", {"class_overrides": {"Leaf": {"class_name": "RenamedLeaf", "module_name": "renamed_leaf_mod"}}}, ["nested"], ["bodies"]),
    ]
    # content_type_overrides: the overridden media types behave as their targets and are still sent as themselves
    variants.append(("content_type_overrides", {"content_type_overrides": {"application/zip": "application/octet-stream", "multipart/mixed": "multipart/form-data", "text/json": "application/json"}}, [], ["bodies"]))
    for label, cf, models, eps in variants:
        a = skeleton_obs("C16", "model", ["rt_", "tri_"], tier, names=models, config=cf, label=f"same_wire_behaviour[{label}]") if models else []
        b = skeleton_obs("C16", "endpoint", ["req_", "resp_"], tier, names=eps, config=cf, label=f"same_wire_behaviour[{label}]")
        for o in a + b:
            o.params["replay_func"] = "vlib.props.C16:replay"
        obs += a + b
    obs.append(Ob("replay_option_effects", "vlib.replay_checks:option_effects", {}, timeout_s=900, engine="replay", cpus=1))
    return obs
