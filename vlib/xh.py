"""CrossHair driver (engines E2 and E3).

One `crosshair check --report_all` OS process per condition (a harness function with a PEP-316 docstring),
run under a hard wall-clock limit, several at a time.  Verdict mapping:

    "Confirmed over all paths."            -> holds (for every value inside the harness's `pre:` bounds)
    "error: ... when calling f(...)"       -> counterexample; the call is replayed in a plain interpreter
    "Not confirmed." / "Unable to meet precondition." / timeout -> inconclusive

Harness functions return True when the property holds (contract `post: _`), so replaying a counterexample is
"call the same function with the printed arguments in an ordinary Python process: it returns False or raises".
"""
from __future__ import annotations

import json
import os
import re
import subprocess
import sys
import time
from concurrent.futures import ThreadPoolExecutor
from pathlib import Path

from .common import VERIF

CROSSHAIR = str(VERIF / ".venv" / "bin" / "crosshair")
PYTHON = str(VERIF / ".venv" / "bin" / "python")


def _env(pythonpath: list[str]) -> dict:
    env = dict(os.environ)
    env["PYTHONPATH"] = ":".join([*pythonpath, str(VERIF)] + ([env["PYTHONPATH"]] if env.get("PYTHONPATH") else []))
    env["PYTHONDONTWRITEBYTECODE"] = "1"
    env.setdefault("PYTHONHASHSEED", "0")
    # coverage.py (a development aid, tools/jcov.py) must never run inside a CrossHair process: its data file
    # handling trips CrossHair's side-effect audit wall
    for k in ("COVERAGE_PROCESS_START", "COVERAGE_PROCESS_CONFIG", "VERIF_JCOV"):
        env.pop(k, None)
    return env


def find_line(src_lines: list[str], func: str) -> int:
    pat = re.compile(rf"^\s*def {re.escape(func)}\(")
    for i, line in enumerate(src_lines, 1):
        if pat.match(line):
            return i + 1  # a line inside the def
    raise KeyError(func)


_CALL = re.compile(r"when calling (.*?)(?: \(which returns (.*)\))?$", re.S)


def run_condition(harness: Path, func: str, timeout: int, pythonpath: list[str], per_path: float | None = None) -> dict:
    lines = harness.read_text().splitlines()
    line = find_line(lines, func)
    cmd = [CROSSHAIR, "check", "--report_all", "--per_condition_timeout", str(timeout)]
    if per_path:
        cmd += ["--per_path_timeout", str(per_path)]
    cmd.append(f"{harness}:{line}")
    t0 = time.time()
    try:
        p = subprocess.run(cmd, capture_output=True, text=True, timeout=timeout * 2 + 60, env=_env(pythonpath), cwd=str(harness.parent))
        out = p.stdout + p.stderr
    except subprocess.TimeoutExpired as e:
        return {"func": func, "verdict": "inconclusive", "message": "wall-clock limit", "s": round(time.time() - t0, 1), "raw": str(e)[:300]}
    dt = round(time.time() - t0, 1)
    verdict, message, call = "inconclusive", out.strip()[-600:], None
    for ln in out.splitlines():
        if ": error: " in ln:
            verdict = "counterexample"
            message = ln.split(": error: ", 1)[1]
            m = _CALL.search(message)
            if m:
                call = m.group(1).strip()
            break
    else:
        if "Confirmed over all paths" in out:
            verdict, message = "confirmed", "Confirmed over all paths."
        elif "Unable to meet precondition" in out:
            verdict, message = "inconclusive", "Unable to meet precondition."
        elif "Not confirmed" in out:
            verdict, message = "inconclusive", "Not confirmed."
        elif p.returncode == 2 or "Traceback" in out:
            verdict = "error"
    return {"func": func, "verdict": verdict, "message": message, "call": call, "s": dt}


_REPLAY = r"""
import importlib.util, json, sys, traceback
spec = importlib.util.spec_from_file_location("harness_mod", sys.argv[1])
mod = importlib.util.module_from_spec(spec); sys.modules["harness_mod"] = mod; spec.loader.exec_module(mod)
ns = dict(vars(mod))
import collections, datetime, decimal, fractions, typing
ns.update(collections=collections, datetime=datetime, typing=typing, float=float, nan=float("nan"), inf=float("inf"))
try:
    r = eval(sys.argv[2], ns)
    out = {"reproduced": r is not True, "observed": repr(r)}
except Exception as e:
    out = {"reproduced": True, "observed": "raises " + type(e).__name__ + ": " + str(e)[:300], "traceback": traceback.format_exc()[-1500:]}
print("@@REPLAY@@" + json.dumps(out))
"""


def replay_call(harness: Path, call: str, pythonpath: list[str], timeout: int = 120) -> dict:
    """Re-execute a CrossHair counterexample call concretely, in a fresh ordinary interpreter."""
    try:
        p = subprocess.run([PYTHON, "-c", _REPLAY, str(harness), call], capture_output=True, text=True, timeout=timeout, env=_env(pythonpath), cwd=str(harness.parent))
    except subprocess.TimeoutExpired:
        return {"reproduced": True, "observed": f"replay does not terminate within {timeout}s"}
    for ln in p.stdout.splitlines():
        if ln.startswith("@@REPLAY@@"):
            return json.loads(ln[len("@@REPLAY@@"):])
    return {"reproduced": False, "observed": "replay process failed: " + (p.stderr or p.stdout)[-800:], "replay_error": True}


def _neighbour_calls(call: str, limit: int = 60) -> list[str]:
    import ast

    try:
        node = ast.parse(call, mode="eval").body
        args = [ast.literal_eval(a) for a in node.args]
        name = ast.unparse(node.func)
    except (SyntaxError, ValueError, AttributeError):
        return []
    out = []
    for i, a in enumerate(args):
        if isinstance(a, bool):
            alts: list = [not a]
        elif isinstance(a, int):
            alts = [v for v in (0, 1, 2, 3) if v != a]
        elif isinstance(a, str):
            alts = [v for v in ("", "a") if v != a]
        else:
            alts = []
        for v in alts:
            b = list(args)
            b[i] = v
            out.append(f"{name}({', '.join(repr(x) for x in b)})")
    return out[:limit]


def check_file(harness: Path, funcs: list[str], timeout: int, pythonpath: list[str], parallel: int = 8, per_path: float | None = None) -> list[dict]:
    """Run every condition; replay every counterexample.  Returns one record per condition."""
    with ThreadPoolExecutor(max_workers=max(1, parallel)) as ex:
        recs = list(ex.map(lambda f: run_condition(harness, f, timeout, pythonpath, per_path), funcs))
    for r in recs:
        if r["verdict"] == "counterexample":
            if r.get("call"):
                r["replay"] = replay_call(harness, r["call"], pythonpath)
                if not r["replay"].get("reproduced") and "Cell is empty" in r.get("message", ""):
                    # CrossHair copies closures when a nested `def` executes and trips over a cell that is still
                    # unassigned: the failure is real (a name used by a nested function became an unassigned local of
                    # the enclosing one) but on the real interpreter it only shows on the branch that reads the cell,
                    # which need not be the one the reported arguments take.  Look for that branch among the
                    # single-argument neighbours of the reported call.
                    for alt in _neighbour_calls(r["call"]):
                        rp = replay_call(harness, alt, pythonpath)
                        if rp.get("reproduced"):
                            r["replay"] = dict(rp, neighbour_of=r["call"])
                            r["call"] = alt
                            break
            else:
                r["replay"] = {"reproduced": False, "observed": "could not parse the counterexample call", "replay_error": True}
    return recs


def list_conditions(harness: Path, prefix: str = "") -> list[str]:
    """Top-level functions of a harness module that carry a `post:` contract."""
    import ast

    tree = ast.parse(harness.read_text())
    out = []
    for node in tree.body:
        if isinstance(node, ast.FunctionDef) and node.name.startswith(prefix):
            doc = ast.get_docstring(node) or ""
            if "post:" in doc:
                out.append(node.name)
    return out


def summarize(recs: list[dict], harness: Path, replay_func: str, what_prefix: str = "", known: list[dict] | None = None, classify=None) -> dict:
    """Fold CrossHair condition records into an obligation result dict.

    `classify(rec) -> finding id | None` maps a reproduced counterexample to a known finding."""
    from .common import result

    known = known or []
    witnesses, hits, inconcl, errors, samples = [], [], [], [], []
    for r in recs:
        if r["verdict"] == "confirmed":
            samples.append({"condition": r["func"], "verdict": "Confirmed over all paths", "s": r["s"]})
        elif r["verdict"] == "counterexample":
            rp = r.get("replay", {})
            kid = classify(r) if (classify and rp.get("reproduced")) else None
            if kid is not None:
                hits.append(kid)
                samples.append({"condition": r["func"], "verdict": "known finding " + kid, "call": r.get("call")})
                continue
            witnesses.append(
                {
                    "what": f"{what_prefix}{r['func']}: {r['message'][:300]}",
                    "input": r.get("call"),
                    "observed": rp.get("observed"),
                    "reproduced": bool(rp.get("reproduced")),
                    "harness": str(harness),
                    "replay_func": replay_func,
                }
            )
        elif r["verdict"] == "error":
            errors.append(f"{r['func']}: {r['message'][-300:]}")
        else:
            inconcl.append(f"{r['func']}: {r['message'][-80:]}")
    status = "holds"
    if errors:
        status = "error"
    elif witnesses or hits:
        status = "violated"
    elif inconcl:
        status = "inconclusive"
    detail = f"{sum(r['verdict'] == 'confirmed' for r in recs)}/{len(recs)} conditions confirmed over all paths"
    if inconcl:
        detail += f"; inconclusive: {inconcl[:4]}"
    if errors:
        detail += f"; errors: {errors[:3]}"
    return result(
        status,
        detail,
        queries=len(recs),
        solver_s=round(sum(r["s"] for r in recs), 1),
        witnesses=witnesses,
        known_hits=sorted(set(hits)),
        samples=samples[:6],
        cases=[r["func"] for r in recs if r["verdict"] in ("confirmed", "counterexample")],
        conditions=[{k: r.get(k) for k in ("func", "verdict", "s", "call")} for r in recs],
        inconclusive_conditions=[x.split(":")[0] for x in inconcl],
    )
