#!/usr/bin/env python3
"""tools/seed.py <name> <property> <agent-worktree> "<needs>"  — confirm a seeded change independently and run the check on it.

1. copies patch.diff and the demonstration into /verif/seeded/<name>/
2. in a fresh scratch worktree of /repo HEAD: demo passes without the patch, fails with it, test suite still 403 passed
3. runs ./check <property> (quick, no evidence) with VERIF_REPO = a scratch worktree that has the patch; /repo is never touched
4. writes meta.json
"""
import json
import os
import re
import shutil
import subprocess
import sys
from pathlib import Path

VERIF = Path("/verif")


def sh(cmd, cwd=None, timeout=3600):
    p = subprocess.run(cmd, shell=True, cwd=cwd, capture_output=True, text=True, timeout=timeout)
    return p.returncode, (p.stdout + p.stderr)


def main():
    name, prop, wt, needs = sys.argv[1], sys.argv[2], Path(sys.argv[3]), sys.argv[4]
    checks = sys.argv[5].split(",") if len(sys.argv) > 5 else [prop]
    dest = VERIF / "seeded" / name
    dest.mkdir(parents=True, exist_ok=True)
    if sys.argv[3] == "-":  # re-run the checks only (the seed was confirmed before): keeps the confirmation record
        meta = json.loads((dest / "meta.json").read_text())
        run_checks(dest, meta, checks)
        return
    demo = next(wt.glob("demo_*.py"))
    if wt.resolve() != dest.resolve():
        shutil.copy(wt / "patch.diff", dest / "patch.diff")
        shutil.copy(demo, dest / demo.name)
    sv = Path(f"/tmp/sv-{name}")
    sh(f"git -C /repo worktree remove --force {sv}")
    rc, out = sh(f"git -C /repo worktree add --detach {sv} HEAD")
    assert rc == 0, out
    meta = {"name": name, "property": prop, "needs": needs, "ran": {}}
    try:
        shutil.copy(demo, sv / demo.name)
        run = f"cd {sv} && PYTHONPATH={sv} /venv/bin/python {demo.name}"
        rc0, out0 = sh(run)
        rca, outa = sh(f"git apply {dest / 'patch.diff'}", cwd=sv)
        assert rca == 0, "patch does not apply to /repo HEAD: " + outa
        rc1, out1 = sh(run)
        rct, outt = sh(f"cd {sv} && PYTHONPATH={sv} /venv/bin/python -m pytest -q -p no:cacheprovider --timeout=900 --continue-on-collection-errors tests end_to_end_tests 2>&1 | tail -3")
        m = re.search(r"(\d+) passed", outt)
        passed = int(m.group(1)) if m else -1
        meta["ran"]["demo_without_patch_exit"] = rc0
        meta["ran"]["demo_with_patch_exit"] = rc1
        meta["ran"]["demo_with_patch_output"] = out1[-800:]
        meta["ran"]["tests_with_patch"] = outt.strip().splitlines()[-1] if outt.strip() else ""
        meta["confirmed"] = rc0 == 0 and rc1 != 0 and passed == 403
        print(f"demo without patch: exit {rc0}; with patch: exit {rc1}; tests: {meta['ran']['tests_with_patch']}; confirmed={meta['confirmed']}")
    finally:
        sh(f"git -C /repo worktree remove --force {sv}")
    run_checks(dest, meta, checks)


def run_checks(dest, meta, checks):
    # run the checks against a scratch worktree of /repo HEAD with the patch applied (VERIF_REPO), never /repo itself
    name = meta["name"]
    sv = Path(f"/tmp/sc-{name}")
    sh(f"git -C /repo worktree remove --force {sv}")
    rc, out = sh(f"git -C /repo worktree add --detach {sv} HEAD")
    assert rc == 0, out
    rca, outa = sh(f"git apply {dest / 'patch.diff'}", cwd=sv)
    assert rca == 0, outa
    meta.setdefault("checks", {})
    jobs = os.environ.get("SEED_JOBS", "16")
    try:
        for c in checks:
            rcc, outc = sh(
                f"cd /verif && VERIF_REPO={sv} VERIF_REPLAYS=/tmp/sc-replays-{name} VERIF_JOBS={jobs} ./check {c} --tier quick --no-evidence",
                timeout=5400,
            )
            lines = [l for l in outc.splitlines() if l.startswith(("VIOLATION", "HARNESS-ERROR", "INCONCLUSIVE", "==", "  violation"))]
            meta["checks"][c] = {"exit": rcc, "lines": lines[:12]}
            print(f"check {c}: exit {rcc}")
            for l in lines[:8]:
                print("   ", l[:220])
    finally:
        sh(f"git -C /repo worktree remove --force {sv}")
        shutil.rmtree(f"/tmp/sc-replays-{name}", ignore_errors=True)
    meta["detected_by"] = sorted(c for c, v in meta["checks"].items() if v["exit"] == 1)
    (dest / "meta.json").write_text(json.dumps(meta, indent=1))
    print("detected_by:", meta["detected_by"])


if __name__ == "__main__":
    main()
