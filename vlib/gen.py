"""Run the *real* generator (openapi_python_client.generate) on in-memory documents into scratch directories."""
from __future__ import annotations

import contextlib
import io
import json
import os
import shutil
import tempfile
from pathlib import Path
from typing import Any


def scratch(prefix: str = "verif-gen-") -> Path:
    base = os.environ.get("VERIF_SCRATCH") or tempfile.gettempdir()
    return Path(tempfile.mkdtemp(prefix=prefix, dir=base))


def make_config(doc_path: Path, out: Path | None, meta: str = "none", overwrite: bool = True, **cf: Any):
    from openapi_python_client.config import Config, ConfigFile, MetaType

    cf.setdefault("post_hooks", [])
    return Config.from_sources(ConfigFile(**cf), MetaType(meta), doc_path, "utf-8", overwrite, out)


def generate(doc: Any, root: Path, package: str = "client", meta: str = "none", overwrite: bool = True, as_yaml: bool = False, **cf: Any):
    """Generate `doc` under root/<package>.  Returns (errors, package_dir).  `errors` is the generator's own list."""
    import openapi_python_client as opc

    root.mkdir(parents=True, exist_ok=True)
    doc_path = root / f"{package}.doc.json"
    doc_path.write_text(json.dumps(doc))
    out = root / package
    if meta == "none":
        cf.setdefault("package_name_override", package)
    else:
        cf.setdefault("project_name_override", package)
        cf.setdefault("package_name_override", package + "_pkg")
    cfg = make_config(doc_path, out, meta=meta, overwrite=overwrite, **cf)
    buf = io.StringIO()
    with contextlib.redirect_stdout(buf):
        errors = opc.generate(config=cfg)
    pkg = out if meta == "none" else out / (cf["package_name_override"])
    return list(errors), pkg


def parse(doc: Any, **cf: Any):
    """GeneratorData for a document (the real parser), used to read name -> python_name mappings."""
    from openapi_python_client.parser import GeneratorData

    cfg = make_config(Path("doc.json"), None, **cf)
    import copy

    return GeneratorData.from_dict(copy.deepcopy(doc), config=cfg), cfg


def tree_files(root: Path) -> dict[str, bytes]:
    out = {}
    for p in sorted(root.rglob("*")):
        if p.is_file() and "__pycache__" not in p.parts:
            out[str(p.relative_to(root))] = p.read_bytes()
    return out


def cleanup(p: Path) -> None:
    shutil.rmtree(p, ignore_errors=True)


def error_levels(errors) -> list[str]:
    return [getattr(e.level, "value", str(e.level)) for e in errors]
