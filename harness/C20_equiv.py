"""C20: a parameter / response / schema used through a reference behaves like its inline twin (real resolvers)."""
from http import HTTPStatus
from pathlib import Path

from openapi_python_client import schema as oai
from openapi_python_client.config import Config, ConfigFile, MetaType
from openapi_python_client.parser.errors import ParseError, PropertyError
from openapi_python_client.parser.openapi import Endpoint
from openapi_python_client.parser.properties import Parameters, Schemas, build_parameters, build_schemas, property_from_data
from openapi_python_client.parser.responses import response_from_data

CFG = Config.from_sources(ConfigFile(post_hooks=[]), MetaType.NONE, Path("doc.json"), "utf-8", True, None)
LOCS = ("query", "header", "cookie", "path")
KINDS = ({"type": "string"}, {"type": "integer"}, {"type": "string", "enum": ["a", "b"]}, {"type": "array", "items": {"type": "string"}}, {"type": "boolean"})
NAMES = ("plain", "needs-snake", "X-Hdr")


def _pick(pool, i):
    for k in range(len(pool)):
        if i == k:
            return pool[k]
    return pool[0]


def _endpoint():
    return Endpoint(path="/p/{plain}/{needs-snake}/{X-Hdr}", method="get", description=None, name="op", requires_security=False, tags=[])


def _describe(ep):
    if isinstance(ep, ParseError):
        return ("error",)
    out = []
    for loc, p in ep.iter_all_parameters():
        out.append((str(loc), p.name, str(p.python_name), p.required, type(p).__name__, p.get_type_string()))
    return tuple(out)


def parameter_ref_equals_inline(loc: int, kind: int, name: int, required: bool) -> bool:
    """
    pre: 0 <= loc < 4 and 0 <= kind < 5 and 0 <= name < 3
    post: _
    """
    pd = {"name": _pick(NAMES, name), "in": _pick(LOCS, loc), "schema": _pick(KINDS, kind), "required": True if (loc == 3 or required) else False}
    inline = oai.Parameter.model_validate(pd)
    params = build_parameters(components={"TheParam": oai.Parameter.model_validate(pd)}, parameters=Parameters(), config=CFG)
    if params.errors:
        return False
    ref = oai.Reference.model_validate({"$ref": "#/components/parameters/TheParam"})
    op_inline = oai.Operation.model_construct(parameters=[inline], responses={}, tags=None, operationId="op", request_body=None, security=None, summary=None, description=None)
    op_ref = oai.Operation.model_construct(parameters=[ref], responses={}, tags=None, operationId="op", request_body=None, security=None, summary=None, description=None)
    a, sa, _ = Endpoint.add_parameters(endpoint=_endpoint(), data=op_inline, schemas=Schemas(), parameters=params, config=CFG)
    b, sb, _ = Endpoint.add_parameters(endpoint=_endpoint(), data=op_ref, schemas=Schemas(), parameters=params, config=CFG)
    return _describe(a) == _describe(b) and sorted(sa.classes_by_name) == sorted(sb.classes_by_name)


BAD_REFS = ("#/components/parameters/Missing", "https://remote/p.json#/X", "other.yaml#/components/parameters/TheParam", "", "#", "#/components/schemas/TheParam")


def malformed_parameter_ref_is_diagnosed(bad: int) -> bool:
    """
    pre: 0 <= bad < 6
    post: _
    """
    params = build_parameters(components={"TheParam": oai.Parameter.model_validate({"name": "p", "in": "query", "schema": {"type": "string"}})}, parameters=Parameters(), config=CFG)
    ref = oai.Reference.model_construct(ref=_pick(BAD_REFS, bad))
    op = oai.Operation.model_construct(parameters=[ref], responses={}, tags=None, operationId="op", request_body=None, security=None, summary=None, description=None)
    schemas = Schemas()
    res, s2, p2 = Endpoint.add_parameters(endpoint=_endpoint(), data=op, schemas=schemas, parameters=params, config=CFG)
    return isinstance(res, ParseError) and s2 is schemas and p2 is params


RESP_CONTENT = (
    {"application/json": {"schema": {"type": "object", "properties": {"a": {"type": "integer"}}}}},
    {"application/json": {"schema": {"$ref": "#/components/schemas/Shared"}}},
    {"text/plain": {"schema": {"type": "string"}}},
    None,
    {"application/octet-stream": {"schema": {"type": "string", "format": "binary"}}},
)


def response_ref_equals_inline(content: int) -> bool:
    """
    pre: 0 <= content < 5
    post: _
    """
    rd = {"description": "d"}
    c = _pick(RESP_CONTENT, content)
    if c is not None:
        rd["content"] = c
    schemas0 = build_schemas(components={"Shared": oai.Schema.model_validate({"type": "object", "properties": {"s": {"type": "string"}}})}, schemas=Schemas(), config=CFG)
    inline = oai.Response.model_validate(rd)
    table = {"TheResp": oai.Response.model_validate(rd)}
    ref = oai.Reference.model_validate({"$ref": "#/components/responses/TheResp"})
    a, sa = response_from_data(status_code=HTTPStatus(200), data=inline, schemas=schemas0, responses=table, parent_name="op", config=CFG)
    b, sb = response_from_data(status_code=HTTPStatus(200), data=ref, schemas=schemas0, responses=table, parent_name="op", config=CFG)
    if isinstance(a, ParseError) or isinstance(b, ParseError):
        return False
    same = (a.source == b.source and type(a.prop) is type(b.prop) and a.prop.get_type_string() == b.prop.get_type_string() and str(a.prop.python_name) == str(b.prop.python_name))
    return same and sorted(sa.classes_by_name) == sorted(sb.classes_by_name)


BAD_RESP_REFS = (
    "https://remote.example/api.yaml#/components/responses/TheResp",
    "other.yaml#/components/responses/TheResp",
    "#/components/schemas/TheResp",
    "#/components/requestBodies/TheResp",
    "#/components/responses/Missing",
    "TheResp",
    "",
)


def malformed_response_reference_is_diagnosed(bad: int) -> bool:
    """
    A response reference that is remote, relative to another file, points into another section or names nothing is a
    diagnostic for that response and leaves the schemas untouched; it is never bound to the local response that merely
    has the same last path segment.
    pre: 0 <= bad < 7
    post: _
    """
    table = {"TheResp": oai.Response.model_validate({"description": "d", "content": {"application/json": {"schema": {"type": "integer"}}}})}
    ref = oai.Reference.model_construct(ref=_pick(BAD_RESP_REFS, bad))
    schemas = Schemas()
    res, s2 = response_from_data(status_code=HTTPStatus(200), data=ref, schemas=schemas, responses=table, parent_name="op", config=CFG)
    return isinstance(res, ParseError) and s2 is schemas


SCHEMA_KINDS = (
    {"type": "object", "properties": {"a": {"type": "integer"}}, "required": ["a"]},
    {"type": "string", "enum": ["x", "y"]},
    {"type": "integer", "enum": [1, 2]},
)


def schema_ref_shares_one_class(kind: int, required: bool, wrap: int) -> bool:
    """
    Every reference to one schema yields the very same generated class (one class object), whether written as a bare
    $ref or through a single-element allOf/oneOf/anyOf wrapper.
    pre: 0 <= kind < 3 and 0 <= wrap < 4
    post: _
    """
    schemas = build_schemas(components={"Target": oai.Schema.model_validate(_pick(SCHEMA_KINDS, kind))}, schemas=Schemas(), config=CFG)
    if schemas.errors:
        return False
    r = {"$ref": "#/components/schemas/Target"}
    data_d = _pick((r, {"allOf": [r]}, {"oneOf": [r]}, {"anyOf": [r]}), wrap)
    data = oai.Reference.model_validate(data_d) if wrap == 0 else oai.Schema.model_validate(data_d)
    required = True if required else False
    bare, s1 = property_from_data(name="p", required=required, data=oai.Reference.model_validate(r), schemas=schemas, parent_name="Parent", config=CFG)
    other, s2 = property_from_data(name="p", required=required, data=data, schemas=s1, parent_name="Parent", config=CFG)
    if isinstance(bare, PropertyError) or isinstance(other, PropertyError):
        return False
    target = schemas.classes_by_reference["/components/schemas/Target"]
    return (
        bare.class_info is target.class_info and other.class_info is target.class_info
        and bare.get_type_string() == other.get_type_string() and bare.required == other.required == required
        and sorted(s2.classes_by_name) == sorted(schemas.classes_by_name)
    )


DEFAULTED_KINDS = (
    {"type": "string", "enum": ["x", "y"], "default": "y"},
    {"type": "integer", "enum": [0, 1, 2], "default": 0},
    {"type": "integer", "default": 25},
    {"type": "string", "default": ""},
    {"type": "boolean", "default": False},
    {"type": "string", "format": "date", "default": "2020-01-02"},
)
_DEFAULTED = tuple(build_schemas(components={"Target": oai.Schema.model_validate(k)}, schemas=Schemas(), config=CFG) for k in DEFAULTED_KINDS)


def wrapper_and_bare_reference_agree(kind: int, required: bool, wrap: int) -> bool:
    """
    A single-element allOf / oneOf / anyOf wrapper around a reference is the bare reference: same kind of property,
    same type, same requiredness and the *same default* (whatever the generator decides a reference inherits from the
    component, the wrapper must decide alike) - for components that declare a default of their own.
    pre: 0 <= kind < 6 and 1 <= wrap < 4
    post: _
    """
    schemas = _pick(_DEFAULTED, kind)
    if schemas.errors:
        return False
    r = {"$ref": "#/components/schemas/Target"}
    data = oai.Schema.model_validate(_pick((r, {"allOf": [r]}, {"oneOf": [r]}, {"anyOf": [r]}), wrap))
    required = True if required else False
    bare, s1 = property_from_data(name="p", required=required, data=oai.Reference.model_validate(r), schemas=schemas, parent_name="Parent", config=CFG)
    other, s2 = property_from_data(name="p", required=required, data=data, schemas=schemas, parent_name="Parent", config=CFG)
    if isinstance(bare, PropertyError) or isinstance(other, PropertyError):
        return False
    da = None if bare.default is None else bare.default.python_code
    db = None if other.default is None else other.default.python_code
    return type(bare) is type(other) and bare.get_type_string() == other.get_type_string() and bare.required == other.required == required and da == db and sorted(s1.classes_by_name) == sorted(s2.classes_by_name)


def reference_keeps_component_default(kind: int, required: bool) -> bool:
    """
    Using a schema through a reference gives the same wire behaviour as an inline copy - including the default the
    component declares (leaving the argument out sends it).  Finding C20-F1 on the pinned tree: the reference drops it.
    pre: 0 <= kind < 6
    post: _
    """
    schemas = _pick(_DEFAULTED, kind)
    if schemas.errors:
        return False
    required = True if required else False
    r = {"$ref": "#/components/schemas/Target"}
    by_ref, _ = property_from_data(name="p", required=required, data=oai.Reference.model_validate(r), schemas=schemas, parent_name="Parent", config=CFG)
    inline, _ = property_from_data(name="p", required=required, data=oai.Schema.model_validate(_pick(DEFAULTED_KINDS, kind)), schemas=Schemas(), parent_name="Parent", config=CFG)
    if isinstance(by_ref, PropertyError) or isinstance(inline, PropertyError):
        return False
    da = None if by_ref.default is None else by_ref.default.raw_value
    db = None if inline.default is None else inline.default.raw_value
    return da == db


# ------------------------------------------------------------------------------------------------ component that is only a reference
from openapi_python_client.parser.properties import ModelProperty, build_schemas  # noqa: E402

_TARGET_KINDS = (
    {"type": "object", "properties": {"y": {"type": "string"}}},
    {"type": "object", "properties": {"inner": {"type": "object", "properties": {"y": {"type": "string"}}}}},
    {"type": "object", "properties": {"l": {"type": "array", "items": {"type": "object", "properties": {"z": {"type": "integer"}}}}}},
    {"type": "object", "properties": {"u": {"oneOf": [{"type": "object", "properties": {"z": {"type": "integer"}}}, {"type": "string"}]}}},
    {"type": "object", "additionalProperties": {"type": "object", "properties": {"z": {"type": "integer"}}}},
    {"type": "object", "properties": {"me": {"$ref": "#/components/schemas/X"}, "e": {"type": "string", "enum": ["a", "b"]}}},
)
_RX = {"$ref": "#/components/schemas/X"}
_RA = {"$ref": "#/components/schemas/Alias"}


def _names(s):
    return sorted(str(k) for k in s.classes_by_name)


def _perm(items, p):
    items = list(items)
    out = []
    for i in range(len(items), 0, -1):
        out.append(items.pop(p % i))
        p //= i
    return out


def _child_props(s):
    c = s.classes_by_name["Child"]
    return sorted(p.name for p in (c.required_properties or []) + (c.optional_properties or []))


def _direct(kind):
    x = _TARGET_KINDS[kind]
    direct = {"X": x, "User": {"type": "object", "properties": {"a": _RX}}, "Child": {"allOf": [_RX, {"type": "object", "properties": {"c": {"type": "integer"}}}]}}
    s2 = build_schemas(components={n: oai.Schema.model_validate(v) for n, v in direct.items()}, schemas=Schemas(), config=CFG)
    assert not s2.errors
    return _names(s2), _child_props(s2)


def _via(kind, wrap, chain):
    w = ("allOf", "oneOf", "anyOf")[wrap]
    via = {"X": _TARGET_KINDS[kind], "Alias": {w: [_RX]}, "User": {"type": "object", "properties": {"a": _RA}}, "Child": {"allOf": [_RA, {"type": "object", "properties": {"c": {"type": "integer"}}}]}}
    if chain:
        via["Alias"] = {w: [{"$ref": "#/components/schemas/Mid"}]}
        via["Mid"] = {"allOf": [_RX]}
    return {n: oai.Schema.model_validate(v) for n, v in via.items()}


# validated once, outside symbolic execution (the parser does not modify the schema objects it is given)
_DIRECT = tuple(_direct(k) for k in range(6))
_VIA = {(k, w, c): _via(k, w, c) for k in range(6) for w in range(3) for c in (False, True)}


def _alias_ok(kind, wrap, order, chain) -> bool:
    via = None
    for (k, w, c), v in _VIA.items():
        if k == kind and w == wrap and c == chain:
            via = v
    order_names = _perm(["Alias", "User", "X"], order) + ["Child"] + (["Mid"] if chain else [])
    s1 = build_schemas(components={n: via[n] for n in order_names}, schemas=Schemas(), config=CFG)
    want_names, want_props = _pick(_DIRECT, kind)
    if s1.errors or _names(s1) != want_names:
        return False
    a, xx = s1.classes_by_reference["/components/schemas/Alias"], s1.classes_by_reference["/components/schemas/X"]
    if not isinstance(a, ModelProperty) or a.class_info != xx.class_info:
        return False
    return _child_props(s1) == want_props and "c" in want_props


def component_alias_equals_direct_reference(kind: int, wrap: int, order: int) -> bool:
    """
    A component that is nothing but a reference (`Alias: {allOf|oneOf|anyOf: [$ref X]}`) is the class of X: the
    document builds without diagnostics exactly like the one that refers to X directly, with the same set of classes,
    and models that use or extend the alias see X's properties — whatever X contains (inline objects, arrays of them,
    unions, typed additionalProperties, self reference) and wherever the alias is declared.
    pre: 0 <= kind < 6 and 0 <= wrap < 3 and 0 <= order < 6
    post: _
    """
    return _alias_ok(kind, wrap, order, False)


# ------------------------------------------------------------------------------------------------ allOf member by reference
def _fam(base_req, child_requires, child_redeclares):
    base = {"type": "object", "properties": {"p-x": {"type": "string"}, "q": {"type": "integer"}, "l": {"type": "array", "items": {"type": "number"}}}}
    if base_req:
        base["required"] = ["p-x"]
    extra = {"type": "object", "properties": {"c": {"type": "integer"}}}
    if child_redeclares == 1:
        extra["properties"]["p-x"] = {"type": "string"}
    elif child_redeclares == 2:  # a case/delimiter twin of an inherited name: both get disambiguated in Child
        extra["properties"]["p_x"] = {"type": "integer"}
    elif child_redeclares == 3:  # narrows the item type of an inherited list
        extra["properties"]["l"] = {"type": "array", "items": {"type": "integer"}}
    if child_requires:
        extra["required"] = ["p-x"]
    fam = {"Base": base, "Child": {"allOf": [{"$ref": "#/components/schemas/Base"}, extra]}, "Sibling": {"allOf": [{"$ref": "#/components/schemas/Base"}, {"type": "object", "properties": {"s": {"type": "string"}}}]}}
    return {n: oai.Schema.model_validate(v) for n, v in fam.items()}


_FAM = {(a, b, c): _fam(a, b, c) for a in (False, True) for b in (False, True) for c in range(4)}


def _shape(s, name):
    m = s.classes_by_name[name]
    return tuple(sorted((p.name, str(p.python_name), p.required, p.get_type_string()) for p in (m.required_properties or []) + (m.optional_properties or [])))


def allof_member_by_reference_leaves_target_unchanged(base_req: bool, child_requires: bool, child_redeclares: int, order: int) -> bool:
    """
    A schema that is used as an allOf member through a $ref is not changed by that use: Base, and a sibling composed
    from Base, have the same properties with the same requiredness as in the document without Child, whatever Child
    requires, re-declares, narrows or adds next to the inherited names, and wherever it is declared (an inline copy of
    Base in Child could not touch them either).
    pre: 0 <= order < 6 and 0 <= child_redeclares < 4
    post: _
    """
    fam = None
    for (a, b, c), v in _FAM.items():
        if a == base_req and b == child_requires and c == child_redeclares:
            fam = v
    names = _perm(["Base", "Child", "Sibling"], order)
    full = build_schemas(components={n: fam[n] for n in names}, schemas=Schemas(), config=CFG)
    alone = build_schemas(components={n: fam[n] for n in names if n != "Child"}, schemas=Schemas(), config=CFG)
    if full.errors or alone.errors:
        return False
    child = dict((n, r) for n, _, r, _ in _shape(full, "Child"))
    want_child_req = True if (base_req or child_requires) else False
    return _shape(full, "Base") == _shape(alone, "Base") and _shape(full, "Sibling") == _shape(alone, "Sibling") and child.get("p-x") == want_child_req


def component_alias_of_alias_equals_direct_reference(kind: int, wrap: int, order: int) -> bool:
    """
    The same through a chain Alias -> Mid -> X.
    pre: 0 <= kind < 6 and 0 <= wrap < 3 and 0 <= order < 6
    post: _
    """
    return _alias_ok(kind, wrap, order, True)


def same_named_component_parameters(loc1: int, loc2: int, kind1: int, kind2: int, name2: int, which: bool, req1: bool) -> bool:
    """
    Two reusable parameters may share a name as long as their locations differ (identity = name + location); a
    reference to either of them behaves exactly like that parameter written inline — it is never answered with the
    other one.
    pre: 0 <= loc1 < 3 and 0 <= loc2 < 3 and loc1 != loc2 and 0 <= kind1 < 2 and 1 <= kind2 < 3 and 0 <= name2 < 2
    post: _
    """
    req2 = not req1
    first = {"name": "limit", "in": _pick(LOCS, loc1), "schema": _pick(KINDS, kind1), "required": True if req1 else False}
    second = {"name": _pick(("limit", "Limit"), name2), "in": _pick(LOCS, loc2), "schema": _pick(KINDS, kind2), "required": True if req2 else False}
    params = build_parameters(components={"First": oai.Parameter.model_validate(first), "Second": oai.Parameter.model_validate(second)}, parameters=Parameters(), config=CFG)
    if params.errors:
        return False
    chosen, comp = (second, "Second") if which else (first, "First")
    ref = oai.Reference.model_validate({"$ref": f"#/components/parameters/{comp}"})
    op_inline = oai.Operation.model_construct(parameters=[oai.Parameter.model_validate(chosen)], responses={}, tags=None, operationId="op", request_body=None, security=None, summary=None, description=None)
    op_ref = oai.Operation.model_construct(parameters=[ref], responses={}, tags=None, operationId="op", request_body=None, security=None, summary=None, description=None)
    ep = Endpoint(path="/p", method="get", description=None, name="op", requires_security=False, tags=[])
    a, sa, _ = Endpoint.add_parameters(endpoint=ep, data=op_inline, schemas=Schemas(), parameters=params, config=CFG)
    b, sb, _ = Endpoint.add_parameters(endpoint=ep, data=op_ref, schemas=Schemas(), parameters=params, config=CFG)
    return _describe(a) == _describe(b) and sorted(sa.classes_by_name) == sorted(sb.classes_by_name)  # (both rejected alike, e.g. an array in a header)
