"""C18 — document names cannot capture the generated code's own names."""
from __future__ import annotations

import ast
import keyword

from ..common import Ob, result

META = {
    "level": "model_checking",
    "assumptions": ["candidate names are computed from the AST of the regenerated neutral modules on every run (so a template change changes the candidate set)"],
}


def _neutral_doc(prop_name: str = "neutral_name", param_name: str = "neutral_param") -> dict:
    from ..skeletons import DATE, INT, STR, doc, jresp, obj, param, ref

    # The candidate sits in the middle of the required properties: a union (its nested `_parse_…(data: object)` helper),
    # comes before it, a date and a list of models come after it, so that
    # a name captured by the candidate is still needed by code that runs later, and code that runs earlier can be
    # broken by the candidate becoming a local of the whole function.
    return doc(
        {
            "CaptureModel": obj(
                {
                    "u-first": {"oneOf": [INT, DATE]},
                    prop_name: INT,
                    "after-date": DATE,
                    "other-prop": STR,
                    "a-list": {"type": "array", "items": ref("Leaf")},
                },
                ["u-first", prop_name, "after-date"],
            ),
            "Leaf": obj({"leaf-id": INT}),
        },
        {
            # the candidate in one location at a time, ordinary names in the others (code of the other locations runs
            # before and after the candidate's own block)
            "/cq/{id}": {
                "post": {
                    "operationId": "captureQuery",
                    "parameters": [param("id", "path", STR), param("plain-d", "query", DATE), param(param_name, "query", STR), param("X-Plain", "header", STR), param("c-plain", "cookie", STR)],
                    "requestBody": {"content": {"application/json": {"schema": ref("Leaf")}}},
                    "responses": {"200": jresp(ref("CaptureModel"))},
                },
                "get": {"operationId": "captureGet", "parameters": [param("id", "path", STR), param(param_name, "query", INT, True)], "responses": {"204": {"description": "n"}}},
            },
            "/ch/{id}": {"post": {"operationId": "captureHeader", "parameters": [param("id", "path", STR), param("plain-q", "query", STR), param(param_name, "header", STR), param("c-plain", "cookie", STR)], "responses": {"204": {"description": "n"}}}},
            "/cc/{id}": {"get": {"operationId": "captureCookie", "parameters": [param("id", "path", STR), param("plain-q", "query", STR), param("X-Plain", "header", STR), param(param_name, "cookie", STR)], "responses": {"204": {"description": "n"}}}},
            # the candidate as a *path* parameter next to ordinary query/header parameters (other code runs in between)
            "/capp/{" + param_name + "}/x": {
                "put": {"operationId": "capturePath", "parameters": [param(param_name, "path", STR), param("limit", "query", INT), param("cursor", "query", STR), param("X-Plain", "header", STR)], "responses": {"204": {"description": "n"}}},
            },
        },
    )


def candidates() -> dict[str, list[str]]:
    """Every identifier the generated neutral modules themselves use, by scope."""
    import builtins

    from .. import gen

    root = gen.scratch("verif-cap-")
    try:
        errs, pdir = gen.generate(_neutral_doc(), root, "sk_neutral")
        out: dict[str, set] = {"model": set(), "endpoint": set()}
        files = [("model", pdir / "models" / "capture_model.py")] + [("endpoint", f) for f in sorted((pdir / "api" / "default").glob("capture_*.py"))]
        for scope, path in files:
            tree = ast.parse(path.read_text())
            for node in ast.walk(tree):
                if isinstance(node, ast.Name):
                    out[scope].add(node.id)
                elif isinstance(node, ast.arg):
                    out[scope].add(node.arg)
                elif isinstance(node, ast.Attribute):
                    out[scope].add(node.attr)
                elif isinstance(node, (ast.FunctionDef, ast.AsyncFunctionDef, ast.ClassDef)):
                    out[scope].add(node.name)
                elif isinstance(node, ast.alias):
                    out[scope].add((node.asname or node.name).split(".")[0])
        for scope in out:
            out[scope] |= set(keyword.kwlist) | {"self", "cls", "client", "url"}
            # names that are simply the Python names of the document's *other* properties/parameters are C09's subject
            own = {"other_prop", "a_list", "leaf_id", "id", "x_plain", "c_plain", "plain_q", "plain_d", "neutral_param", "neutral_name", "u_first", "after_date", "opt_null", "nested_m", "an_enum"}
            out[scope] = {n for n in out[scope] if n.isidentifier() and not n.startswith("neutral") and n not in own}
        del builtins
        return {k: sorted(v) for k, v in out.items()}
    finally:
        gen.cleanup(root)


DUMP: dict = {}  # scope -> name -> failing conditions of the last sweep in this process (tools/c18_baseline.py)


def capture_sweep(scope: str, part: int = 0, parts: int = 1, tier: str = "quick", known: list | None = None, timeout: int = 60, par: int = 1, **_: object) -> dict:
    """For each candidate name used as a property (scope=model) / parameter (scope=endpoint) name, regenerate the
    client and run the same document-derived CrossHair oracles (round trip / request) as for a neutral name."""
    from .. import e3, gen, xh

    known = known or []
    known_names = {n for e in known if e.get("scope") == scope for n in e.get("names", [])}
    cands = candidates()[scope]
    mine = [c for i, c in enumerate(cands) if i % parts == part]
    controls = ["plain_control", "anotherControl"] if part == 0 else []
    root = gen.scratch("verif-cap-")
    wit, hits, n, confirmed = [], set(), 0, 0
    try:
        for name in mine + controls:
            d = _neutral_doc(prop_name=name) if scope == "model" else _neutral_doc(param_name=name)
            pkg = "sk_cap_" + "".join(ch if ch.isalnum() else "_" for ch in name)
            try:
                errs, pdir = gen.generate(d, root, pkg)
            except Exception as e:
                errs, pdir = [], None
                problem = f"generator raised {type(e).__name__}: {e}"
            else:
                problem = None
            recs = []
            if problem is None:
                try:
                    data, cfg = gen.parse(d)
                    if scope == "model":
                        src, funcs, meta = e3.model_harness(d, pkg, data, depth_max=1, list_max=1, str_max=1, only=["CaptureModel"])
                        funcs = [f for f in funcs if f.startswith(("rt_",) if tier == "quick" else ("rt_", "tri_"))]
                    else:
                        src, funcs, meta = e3.endpoint_harness(d, pkg, data, cfg)
                        funcs = [f for f in funcs if f.startswith("req_")]
                    if any(getattr(e.level, "value", "") == "ERROR" for e in errs) or not funcs:
                        problem = f"not generated: {[e.detail for e in errs][:2]}"
                    else:
                        hp = root / f"h_{pkg}.py"
                        hp.write_text(src)
                        recs = xh.check_file(hp, funcs, timeout, [str(root)], parallel=par)
                except Exception as e:
                    problem = f"harness could not be built: {type(e).__name__}: {e}"
            n += 1
            # which conditions fail for this name ("*" = the package / harness as a whole is broken)
            failing: dict[str, str] = {}
            if problem:
                failing["*"] = problem
            for r in recs:
                if r["verdict"] == "counterexample" and r.get("replay", {}).get("reproduced"):
                    failing[r["func"]] = f"{r.get('call') or r['func']}: {str(r.get('replay', {}).get('observed'))[:200]} (CrossHair: {r['message'][:100]})"
                elif r["verdict"] == "error":
                    failing["*"] = f"{r['func']}: harness cannot even be loaded: {r['message'][-200:]}"
            nonrep = [r for r in recs if r["verdict"] == "counterexample" and not r.get("replay", {}).get("reproduced")]
            DUMP.setdefault(scope, {})[name] = sorted(failing)
            if failing:
                # a finding excuses exactly the conditions recorded for the name: the same name failing somewhere else
                # (another location, another call variant) is a new capture
                allowed: set[str] = set()
                ids = []
                for e in known:
                    if e.get("scope") == scope and name in (e.get("fails") or {}):
                        allowed |= set(e["fails"][name])
                        ids.append(e["id"])
                extra = sorted(f for f in failing if f not in allowed and "*" not in allowed)
                if ids and not extra:
                    hits.update(ids)
                else:
                    first = extra[0] if extra else sorted(failing)[0]
                    wit.append({"what": f"{scope} name {name!r} changes the behaviour of the generated code" + (f" (beyond the recorded {sorted(allowed)})" if ids else ""), "input": {"scope": scope, "name": name}, "observed": {"failing": sorted(failing), "first": failing[first]}, "reproduced": True, "replay_func": "vlib.props.C18:replay"})
            elif nonrep:
                wit.append({"what": f"{scope} name {name!r}: CrossHair counterexample does not reproduce", "input": {"scope": scope, "name": name}, "observed": nonrep[0]["message"][:200], "reproduced": False})
            else:
                confirmed += sum(r["verdict"] == "confirmed" for r in recs)
            if pdir is not None:
                gen.cleanup(pdir)
    finally:
        gen.cleanup(root)
    return result("violated" if (wit or hits) else "holds", f"{n} candidate names, {confirmed} CrossHair conditions confirmed, {len(wit)} unlisted captures", queries=n, witnesses=wit[:6], known_hits=sorted(hits), cases=[f"{scope}:{c}" for c in mine], bounds={"candidates": len(mine), "scope": scope}, samples=[{"candidates": mine[:10]}], stubs=["oracles: the schema-directed round-trip / request conditions of vlib/e3.py"])


def replay(w: dict) -> dict:
    i = w["input"]
    r = capture_sweep_single(i["scope"], i["name"])
    return r


def capture_sweep_single(scope: str, name: str) -> dict:
    import vlib.props.C18 as me

    saved = me.candidates
    try:
        me.candidates = lambda: {scope: [name], ("model" if scope == "endpoint" else "endpoint"): []}
        from ..common import load_known

        r = capture_sweep(scope, 0, 1, known=[e for e in load_known("C18") if e.get("obligation") == "capture"])
    finally:
        me.candidates = saved
    hit = [x for x in r["witnesses"] if x["input"]["name"] == name]
    return {"reproduced": bool(hit), "observed": hit[0]["observed"] if hit else None}


def obligations(tier: str) -> list[Ob]:
    q = tier == "quick"
    obs = []
    parts = 16
    for scope in ("model", "endpoint"):
        for part in range(parts):
            obs.append(Ob(f"capture[{scope},{part}/{parts}]", "vlib.props.C18:capture_sweep", {"scope": scope, "part": part, "parts": parts, "known_key": "capture", "timeout": 60 if q else 240, "par": 1 if q else 2}, timeout_s=1500 if q else 5000, engine="E3", cpus=1 if q else 2))
    return obs
