"""Sets whose iteration order is a solver variable (C12).

`install()` puts an import hook in front of the generator's own modules (openapi_python_client.parser.*, the package
__init__ and utils): their source is parsed, every place that *creates* a set - `set(...)` calls, set displays, set
comprehensions, `factory=set` / `default_factory=set` - is rewritten to build a `PermSet`, and the module is compiled
from the rewritten tree.  A PermSet is a `set` in every respect except that iterating it follows the permutation
selected by `PERM[0]`, which a harness binds to a symbolic integer: the interpreter's hash seed becomes a variable the
solver quantifies over, for *every* set the generator builds, not only the ones a harness knows about.
"""
from __future__ import annotations

import ast
import importlib.abc
import importlib.machinery
import sys

PERM = [0]
CREATED = [0]  # how many PermSets the rewritten code built (vacuity guard for the harness)
ITERATED = [0]  # how many times a PermSet with >= 2 elements was iterated


def _perm(items: list, p):
    items = list(items)
    out = []
    for i in range(len(items), 0, -1):
        out.append(items.pop(p % i))
        p //= i
    return out


class PermSet(set):
    __slots__ = ()

    def __init__(self, *a):
        super().__init__(*a)
        CREATED[0] += 1

    def __iter__(self):
        items = sorted(set.__iter__(self), key=lambda x: (type(x).__name__, str(x)))
        if len(items) >= 2:
            ITERATED[0] += 1
        return iter(_perm(items, PERM[0]))

    # results of set algebra stay PermSets
    def _wrap(self, r):
        return PermSet(set.__iter__(r)) if isinstance(r, set) else r

    def __or__(self, o):
        return self._wrap(set.__or__(self, o))

    def __ror__(self, o):
        return self._wrap(set.__ror__(self, o))

    def __and__(self, o):
        return self._wrap(set.__and__(self, o))

    def __sub__(self, o):
        return self._wrap(set.__sub__(self, o))

    def __xor__(self, o):
        return self._wrap(set.__xor__(self, o))

    def union(self, *o):
        return self._wrap(set.union(self, *o))

    def intersection(self, *o):
        return self._wrap(set.intersection(self, *o))

    def difference(self, *o):
        return self._wrap(set.difference(self, *o))

    def copy(self):
        return PermSet(set.__iter__(self))

    def __deepcopy__(self, memo):
        import copy

        return PermSet(copy.deepcopy(x, memo) for x in set.__iter__(self))

    def __reduce__(self):
        return (PermSet, (list(set.__iter__(self)),))


_NAME = "_verif_PermSet"


class _Rewrite(ast.NodeTransformer):
    def __init__(self) -> None:
        self.n = 0

    def _call(self, arg: ast.AST | None) -> ast.Call:
        self.n += 1
        return ast.Call(func=ast.Name(id=_NAME, ctx=ast.Load()), args=[arg] if arg is not None else [], keywords=[])

    def visit_Set(self, node: ast.Set) -> ast.AST:
        self.generic_visit(node)
        return self._call(node)

    def visit_SetComp(self, node: ast.SetComp) -> ast.AST:
        self.generic_visit(node)
        return self._call(node)

    def visit_Call(self, node: ast.Call) -> ast.AST:
        self.generic_visit(node)
        if isinstance(node.func, ast.Name) and node.func.id == "set":
            node.func = ast.Name(id=_NAME, ctx=ast.Load())
            self.n += 1
        for kw in node.keywords:
            if kw.arg in ("factory", "default_factory") and isinstance(kw.value, ast.Name) and kw.value.id == "set":
                kw.value = ast.Name(id=_NAME, ctx=ast.Load())
                self.n += 1
        return node


REWRITTEN: dict[str, int] = {}


class _Loader(importlib.machinery.SourceFileLoader):
    def get_code(self, fullname):  # never use a cached .pyc: the code object must come from the rewritten tree
        path = self.get_filename(fullname)
        return self.source_to_code(self.get_data(path), path)

    def source_to_code(self, data, path, *, _optimize=-1):
        tree = ast.parse(data, path)
        rw = _Rewrite()
        tree = rw.visit(tree)
        # bind the name after the module docstring / __future__ imports
        k = 0
        for k, st in enumerate(tree.body):  # noqa: B007
            if isinstance(st, ast.Expr) and isinstance(getattr(st, "value", None), ast.Constant) and isinstance(st.value.value, str) and k == 0:
                continue
            if isinstance(st, ast.ImportFrom) and st.module == "__future__":
                continue
            break
        imp = ast.ImportFrom(module="vlib.permset", names=[ast.alias(name="PermSet", asname=_NAME)], level=0)
        tree.body.insert(k, imp)
        ast.fix_missing_locations(tree)
        REWRITTEN[self.name] = rw.n
        return compile(tree, path, "exec", dont_inherit=True, optimize=_optimize)


class _Finder(importlib.abc.MetaPathFinder):
    PREFIXES = ("openapi_python_client.parser", "openapi_python_client.utils")

    def find_spec(self, fullname, path=None, target=None):
        if not (fullname == "openapi_python_client" or any(fullname == p or fullname.startswith(p + ".") for p in self.PREFIXES)):
            return None
        spec = importlib.machinery.PathFinder.find_spec(fullname, path)
        if spec is None or not isinstance(spec.loader, importlib.machinery.SourceFileLoader):
            return None
        spec.loader = _Loader(spec.loader.name, spec.loader.path)
        return spec


def install() -> None:
    if any(isinstance(f, _Finder) for f in sys.meta_path):
        return
    if "openapi_python_client" in sys.modules:
        raise RuntimeError("vlib.permset.install() must run before openapi_python_client is imported")
    sys.meta_path.insert(0, _Finder())
