"""C11 — generated code type-checks and its annotations are truthful (the run-time half is decided)."""
from __future__ import annotations

from ..common import Ob
from ..e3 import replay, skeleton_obs  # noqa: F401

META = {
    "level": "model_checking",
    "assumptions": ["'passes mypy' is NOT decided: mypy is an external static analyser with no solver encoding here; only 'annotations describe what actually happens' is"],
}


def obligations(tier: str) -> list[Ob]:
    obs = skeleton_obs("C11", "model", ["ann_"], tier, label="annotations")
    obs += skeleton_obs("C11", "model", ["ann_"], tier, names=["enums", "unions", "nested"], config={"literal_enums": True}, label="annotations-literal-enums")
    obs += skeleton_obs("C11", "endpoint", ["req_"], tier, names=["bodies", "params"], label="encoder-accepts-annotated-values")
    return obs
