"""C08 — a bad piece of the document never damages unrelated output."""
from __future__ import annotations

from ..common import Ob
from ..e2 import harness_ob, replay  # noqa: F401

META = {"level": "model_checking", "assumptions": ["the differential replay covers a finite list of bad pieces at sampled positions in the skeleton family (path-exhaustive over that list, not value-symbolic)"]}


def obligations(tier: str) -> list[Ob]:
    q = tier == "quick"
    return [
        harness_ob(
            "removal_closure", "C08_removal.py", tier, timeout=120 if q else 600, cpus=2,
            encoded=["openapi_python_client.parser.properties:_process_model_errors", "openapi_python_client.parser.properties:_propogate_removal"],
            bounds={"dependency graph": "all graphs on 3 nodes incl. cycles (4 nodes thorough), arbitrary failing subset"},
        ),
        harness_ob(
            "endpoint_containment", "C07_accounting.py", tier, funcs=["containment", "accounting_presence"], timeout=240 if q else 900, cpus=2,
            encoded=["openapi_python_client.parser.openapi:EndpointCollection.from_data"],
            stubs=["Endpoint.from_data -> arbitrary Endpoint | ParseError per operation"],
            bounds={"operations": 3},
        ),
        harness_ob(
            "failed_step_keeps_state", "C08_state.py", tier, timeout=240 if q else 900, cpus=4,
            encoded=["openapi_python_client.parser.properties:property_from_data", "openapi_python_client.parser.properties.schemas:update_schemas_with_data", "openapi_python_client.parser.openapi:Endpoint.add_parameters"],
            bounds={"bad pieces": "pool of 13 invalid schemas", "pre-state": "0-2 registered classes", "overridden path-item parameter": "4 locations x 5 schemas (4 invalid, 1 valid inline enum) x with/without another inherited parameter"},
        ),
        harness_ob(
            "dependants_removed_at_every_position", "C08_deps.py", tier, funcs=["dependants_are_removed", "rejected_duplicate_spares_the_existing_class"], timeout=400 if q else 1200, cpus=2,
            encoded=["openapi_python_client.parser.properties:build_schemas", "openapi_python_client.parser.properties.model_property:ModelProperty.build", "openapi_python_client.parser.properties.union:UnionProperty.build", "openapi_python_client.parser.properties.list_property:ListProperty.build", "openapi_python_client.parser.properties.model_property:_process_properties", "openapi_python_client.parser.properties.schemas:Schemas.add_dependencies"],
            bounds={"positions": "10 (direct, list item, union member, list of unions, inline nested object, allOf wrapper, nullable reference, additionalProperties, allOf member, array inside anyOf)", "failures": 3, "declaration orders": "all 6"},
        ),
        Ob("replay_bad_pieces", "vlib.replay_checks:bad_pieces", {}, timeout_s=1500 if q else 6000, engine="replay", cpus=1),
    ]
