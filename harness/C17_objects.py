"""C17 (objects): the three ways of saying "this object, or null" build the same property (real validators/builders).

Bases are object-valued schemas: an inline object, an allOf of one / two references with and without an explicit
`type: object`.  Class-name suffixes (`…Type0` / `…Type1`) depend on where the null member stands in the union and are
not part of the equivalence; what is compared is the *shape*: which kinds the value may take, whether null is among
them, and for models their required / optional property names.
"""
from pathlib import Path

from openapi_python_client import schema as oai
from openapi_python_client.config import Config, ConfigFile, MetaType
from openapi_python_client.parser.errors import PropertyError
from openapi_python_client.parser.properties import ModelProperty, Schemas, build_schemas, property_from_data

CFG = Config.from_sources(ConfigFile(post_hooks=[]), MetaType.NONE, Path("doc.json"), "utf-8", True, None)
_COMPONENTS = {
    "Base": oai.Schema.model_validate({"type": "object", "properties": {"a": {"type": "integer"}, "b": {"type": "string"}}, "required": ["a"]}),
    "Other": oai.Schema.model_validate({"type": "object", "properties": {"c": {"type": "string"}}}),
}
SCHEMAS = build_schemas(components=_COMPONENTS, schemas=Schemas(), config=CFG)
assert not SCHEMAS.errors
R1, R2 = {"$ref": "#/components/schemas/Base"}, {"$ref": "#/components/schemas/Other"}
BASES = (
    {"type": "object", "properties": {"x": {"type": "integer"}}},
    {"type": "object", "allOf": [R1]},  # C17-F1
    {"type": "object", "allOf": [R1, R2]},
    {"allOf": [R1]},
    {"allOf": [R1, R2]},
    {"type": "object", "allOf": [R1], "properties": {"y": {"type": "string"}}, "required": ["y"]},
)


def _pick(pool, i):
    for k in range(len(pool)):
        if i == k:
            return pool[k]
    return pool[0]


def _shape(prop):
    if isinstance(prop, PropertyError):
        return ("error", prop.detail)
    inner = getattr(prop, "inner_properties", None) or [prop]
    kinds = []
    for p in inner:
        if isinstance(p, ModelProperty):
            kinds.append(("model", tuple(sorted(q.name for q in p.required_properties or [])), tuple(sorted(q.name for q in p.optional_properties or []))))
        else:
            kinds.append((type(p).__name__,))
    return (tuple(sorted(kinds)), prop.required)


def _build(d, required):
    prop, _ = property_from_data(name="p", required=True if required else False, data=oai.Schema.model_validate(d), schemas=SCHEMAS, parent_name="Parent", config=CFG)
    return _shape(prop)


def _admits_null(shape):
    return shape[0] != "error" and ("NoneProperty",) in shape[0]


def object_nullable30_equals_type_list31(base: int, required: bool) -> bool:
    """
    pre: 0 <= base < 6 and base != 3 and base != 4
    post: _
    """
    b = _pick(BASES, base)
    return _build(dict(b, nullable=True), required) == _build(dict(b, type=[b["type"], "null"]), required)


def object_nullable_admits_null(base: int, required: bool) -> bool:
    """
    `nullable: true` (3.0), the type list (3.1) and the explicit null union member all make the property nullable
    and describe the same object.
    pre: 0 <= base < 6
    post: _
    """
    b = _pick(BASES, base)
    s30 = _build(dict(b, nullable=True), required)
    s_union = _build({"oneOf": [dict(b), {"type": "null"}]}, required)
    return _admits_null(s30) and s30 == s_union


def object_nullable_admits_null__excl(base: int, required: bool) -> bool:
    """
    pre: 0 <= base < 6 and base != 1 and base != 5
    post: _
    """
    b = _pick(BASES, base)
    s30 = _build(dict(b, nullable=True), required)
    s_union = _build({"oneOf": [dict(b), {"type": "null"}]}, required)
    return _admits_null(s30) and s30 == s_union


def object_shape_is_conjunction(base: int, required: bool) -> bool:
    """
    Without any null: the object a base describes has every property of every allOf member and of the schema itself.
    pre: 0 <= base < 6
    post: _
    """
    b = _pick(BASES, base)
    want = set(b.get("properties") or {})
    for m in b.get("allOf", []):
        want |= {"a", "b"} if m is R1 else {"c"}
    s = _build(dict(b), required)
    if s[0] == "error" or len(s[0]) != 1 or s[0][0][0] != "model":
        return False
    return set(s[0][0][1]) | set(s[0][0][2]) == want
