#!/bin/bash
# Runs every property's thorough command once, sequentially (each uses all 16 cores); prints one summary line per property.
cd "$(dirname "$0")/.."
for p in ${@:-C01 C02 C03 C04 C05 C06 C07 C08 C09 C10 C11 C12 C13 C14 C15 C16 C17 C18 C19 C20}; do
  s=$(date +%s); ./check $p --tier thorough --no-evidence > /tmp/thorough-$p.log 2>&1; rc=$?; e=$(date +%s)
  echo "$p exit=$rc wall=$((e-s))s inconclusive=$(grep -c '^INCONCLUSIVE' /tmp/thorough-$p.log) violations=$(grep -c '^VIOLATION' /tmp/thorough-$p.log) harness_errors=$(grep -c '^HARNESS-ERROR' /tmp/thorough-$p.log)"
  grep '^INCONCLUSIVE\|^HARNESS-ERROR\|^VIOLATION' /tmp/thorough-$p.log | cut -c1-220 | head -8
done
