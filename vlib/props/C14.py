"""C14 — enumerations and constants admit exactly the declared values."""
from __future__ import annotations

from ..common import Ob
from ..e2 import harness_ob
from ..e3 import skeleton_obs

META = {"level": "model_checking", "assumptions": ["decode candidates come from pools: the members plus near misses (case variants, padded, prefixed, other JSON types)"]}


def replay(w: dict) -> dict:
    if w.get("skeleton"):
        from ..e3 import replay as r3

        return r3(w)
    from ..e2 import replay as r2

    return r2(w)


def obligations(tier: str) -> list[Ob]:
    q = tier == "quick"
    obs = skeleton_obs("C14", "model", ["memb_", "rt_"], tier, names=["enums"], label="membership")
    obs += skeleton_obs("C14", "model", ["memb_", "rt_"], tier, names=["enums"], config={"literal_enums": True}, label="membership-literal-enums")
    nullable = {f: "C14-F2" for f in ("memb_HolderB_null_enum", "memb_HolderD_null_int_e", "memb_HolderD_opt_null_ref")}
    for o in obs:
        o.params["replay_func"] = "vlib.props.C14:replay"
        o.params["finding_by_func"] = nullable
        o.params["known_key"] = "membership"
    obs.append(
        harness_ob(
            "enum_builders", "C06_enums.py", tier, timeout=150 if q else 600, cpus=4, replay_func="vlib.props.C14:replay",
            finding_by_func={"enum_build_no_raise": "C14-F1"},
            encoded=["openapi_python_client.parser.properties.enum_property:EnumProperty.build", "openapi_python_client.parser.properties.enum_property:EnumProperty.values_from_list", "openapi_python_client.parser.properties.literal_enum_property:LiteralEnumProperty.build"],
            stubs=["enum values from a pool that contains case/delimiter twins, empty string, leading digits, non-identifier characters"],
            bounds={"values per enum": "<= 2 (quick)", "value pool": 10},
        )
    )
    obs.append(
        harness_ob(
            "null_member_becomes_nullable", "C17_equiv.py", tier, funcs=["enum_with_null_equals_union"], timeout=200 if q else 600, cpus=1, replay_func="vlib.props.C14:replay",
            encoded=["openapi_python_client.parser.properties.enum_property:EnumProperty.build", "openapi_python_client.parser.properties.literal_enum_property:LiteralEnumProperty.build"],
        )
    )
    return obs
