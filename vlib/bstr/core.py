"""Bounded symbolic strings over the finite alphabet Sigma, as QF_BV terms (z3).

A BStr is a fixed-capacity vector of 10-bit character indices plus an 8-bit length.  Positions >= n are
"don't care": every operation guards with `i < n`.  Operations never fork: control flow is merged with ITE, so
one property is one solver query.
"""
from __future__ import annotations

import keyword
import unicodedata
from typing import Callable, Iterable, Sequence

import z3

from .alphabet import IDX, SIGMA

W = 10
LW = 8
PAD = 2**W - 1
TRUE, FALSE = z3.BoolVal(True), z3.BoolVal(False)
MAXLEN = 2**LW - 2


def bv(i: int):
    return z3.BitVecVal(i, W)


def lv(i: int):
    assert 0 <= i < 2**LW, f"length {i} overflows the {LW}-bit length field"
    return z3.BitVecVal(i, LW)


def C(ch: str):
    return bv(IDX[ch])


class Unsupported(Exception):
    """The code under analysis uses something the engine does not model: the obligation is inconclusive."""


# ------------------------------------------------------------------------------------------------ char tables
def _runs(idxs: Sequence[int]) -> list[tuple[int, int]]:
    runs: list[tuple[int, int]] = []
    for i in sorted(idxs):
        if runs and runs[-1][1] == i - 1:
            runs[-1] = (runs[-1][0], i)
        else:
            runs.append((i, i))
    return runs


def pred(fn: Callable[[str], bool]) -> Callable:
    """Lift a concrete per-character predicate to a z3 predicate over character indices (table of ranges)."""
    runs = _runs([i for i, c in enumerate(SIGMA) if fn(c)])
    total = sum(b - a + 1 for a, b in runs)

    def p(x):
        if not runs:
            return FALSE
        if total == len(SIGMA):
            return z3.ULT(x, bv(len(SIGMA)))
        terms = []
        for a, b in runs:
            if a == b:
                terms.append(x == bv(a))
            elif a == 0:
                terms.append(z3.ULE(x, bv(b)))
            else:
                terms.append(z3.And(z3.UGE(x, bv(a)), z3.ULE(x, bv(b))))
        return z3.Or(terms) if len(terms) > 1 else terms[0]

    p.concrete = fn  # type: ignore[attr-defined]
    return p


class CharMap:
    """A per-character mapping char -> string of 0..maxl characters (lower, upper, title, repr escapes, ...)."""

    def __init__(self, fn: Callable[[str], str], name: str = "") -> None:
        self.fn, self.name = fn, name
        self.images = [fn(c) for c in SIGMA]
        for c, m in zip(SIGMA, self.images):
            for d in m:
                if d not in IDX:
                    raise Unsupported(f"char map {name}: image {m!r} of {c!r} leaves the alphabet")
        self.maxl = max(1, max(len(m) for m in self.images))

    def ln(self, x):
        e = lv(1)
        by_len: dict[int, list[int]] = {}
        for i, m in enumerate(self.images):
            if len(m) != 1:
                by_len.setdefault(len(m), []).append(i)
        for L, idxs in by_len.items():
            for a, b in _runs(idxs):
                cond = x == bv(a) if a == b else z3.And(z3.UGE(x, bv(a)), z3.ULE(x, bv(b)))
                e = z3.If(cond, lv(L), e)
        return e

    def ch(self, x, k: int):
        e = x if k == 0 else bv(PAD)
        # group by constant delta over runs of consecutive indices
        ents = []
        for i, m in enumerate(self.images):
            tgt = IDX[m[k]] if k < len(m) else PAD
            if (k == 0 and tgt != i) or (k > 0 and tgt != PAD):
                ents.append((i, tgt))
        j = 0
        while j < len(ents):
            i0, t0 = ents[j]
            k2 = j
            while k2 + 1 < len(ents) and ents[k2 + 1][0] == ents[k2][0] + 1 and ents[k2 + 1][1] - ents[k2 + 1][0] == t0 - i0 and t0 != PAD:
                k2 += 1
            if k2 > j:
                i1 = ents[k2][0]
                e = z3.If(z3.And(z3.UGE(x, bv(i0)), z3.ULE(x, bv(i1))), x + bv((t0 - i0) % 2**W), e)
            else:
                e = z3.If(x == bv(i0), bv(t0), e)
            j = k2 + 1
        return e


# ------------------------------------------------------------------------------------------------ BStr
class BStr:
    __slots__ = ("ch", "n")

    def __init__(self, ch: list, n) -> None:
        self.ch, self.n = ch, n

    @property
    def cap(self) -> int:
        return len(self.ch)

    def __repr__(self) -> str:
        return f"<BStr cap={self.cap}>"


def const_str(s: str) -> BStr:
    for c in s:
        if c not in IDX:
            raise Unsupported(f"constant {s!r} contains a character outside Sigma")
    return BStr([C(c) for c in s], lv(len(s)))


def as_bstr(x) -> BStr:
    return const_str(x) if isinstance(x, str) else x


def inb(s: BStr, i: int):
    return z3.ULT(lv(i), s.n)


def sym_input(K: int, name: str = "v", exact: bool = False) -> tuple[BStr, list]:
    """A symbolic string of length <= K (or, with exact=True, of length exactly K: the length is then a constant and
    every `i < n` guard folds away — used to split one bounded query into K+1 independent, much smaller ones)."""
    if exact:
        v = BStr([z3.BitVec(f"{name}_c{i}", W) for i in range(K)], lv(K))
        return v, [z3.ULT(v.ch[i], bv(len(SIGMA))) for i in range(K)]
    v = BStr([z3.BitVec(f"{name}_c{i}", W) for i in range(K)], z3.BitVec(f"{name}_n", LW))
    return v, [z3.ULE(v.n, lv(K))] + [z3.ULT(v.ch[i], bv(len(SIGMA))) for i in range(K)]


def compact(segs: list[list], cnts: list, outcap: int) -> BStr:
    """Concatenate segs[i][:cnts[i]] in order.  The length is exact even when `outcap` truncates the array.
    (A log-depth compress network was measured 3x slower in z3 than this direct offset-match encoding.)"""
    if sum(len(s) for s in segs) > MAXLEN:
        raise Unsupported(f"string of {sum(len(s) for s in segs)} slots overflows the {LW}-bit length field")
    outcap = min(outcap, MAXLEN)
    offs, acc = [], lv(0)
    maxoff, m = [], 0
    for seg, c in zip(segs, cnts):
        offs.append(acc)
        maxoff.append(m)
        acc = acc + c
        m += len(seg)
    outcap = min(outcap, m)
    out = []
    for p in range(outcap):
        e = bv(PAD)
        for i in reversed(range(len(segs))):
            seg = segs[i]
            for t in reversed(range(len(seg))):
                if p < t or p > maxoff[i] + t:
                    continue
                e = z3.If(z3.And(z3.ULT(lv(t), cnts[i]), offs[i] + lv(t) == lv(p)), seg[t], e)
        out.append(e)
    return BStr(out, acc)


def concat(parts: Iterable) -> BStr:
    segs, cnts, cap = [], [], 0
    for p in parts:
        p = as_bstr(p)
        if p.cap == 0:
            continue
        segs.append(list(p.ch))
        cnts.append(p.n)
        cap += p.cap
    if not segs:
        return const_str("")
    if len(segs) == 1:
        return BStr(list(segs[0]), cnts[0])
    return compact(segs, cnts, cap)


def ite_str(c, a, b) -> BStr:
    a, b = as_bstr(a), as_bstr(b)
    cap = max(a.cap, b.cap)
    ach = a.ch + [bv(PAD)] * (cap - a.cap)
    bch = b.ch + [bv(PAD)] * (cap - b.cap)
    return BStr([z3.If(c, x, y) for x, y in zip(ach, bch)], z3.If(c, a.n, b.n))


def eq_const(s: BStr, word: str):
    if len(word) > s.cap or any(c not in IDX for c in word):
        return FALSE
    return z3.And(s.n == lv(len(word)), *[s.ch[i] == C(w) for i, w in enumerate(word)])


def eq(a, b):
    if isinstance(a, str) and isinstance(b, str):
        return z3.BoolVal(a == b)
    if isinstance(a, str):
        return eq_const(b, a)
    if isinstance(b, str):
        return eq_const(a, b)
    m = min(a.cap, b.cap)
    conj = [a.n == b.n, z3.ULE(a.n, lv(m))]
    for i in range(m):
        conj.append(z3.Or(z3.Not(inb(a, i)), a.ch[i] == b.ch[i]))
    return z3.And(conj)


def in_words(s: BStr, words: Iterable[str]):
    ws = sorted(w for w in words if isinstance(w, str) and len(w) <= s.cap and all(c in IDX for c in w))
    return z3.Or([eq_const(s, w) for w in ws]) if ws else FALSE


def map_chars(s: BStr, tab_at: Callable[[int], CharMap]) -> BStr:
    segs, cnts, cap = [], [], 0
    for i in range(s.cap):
        t = tab_at(i)
        segs.append([t.ch(s.ch[i], k) for k in range(t.maxl)])
        cnts.append(z3.If(inb(s, i), t.ln(s.ch[i]), lv(0)))
        cap += t.maxl
    return compact(segs, cnts, cap)


def any_char(s: BStr, p: Callable):
    return z3.Or([z3.And(inb(s, i), p(s.ch[i])) for i in range(s.cap)]) if s.cap else FALSE


def all_char(s: BStr, p: Callable):
    return z3.And([z3.Or(z3.Not(inb(s, i)), p(s.ch[i])) for i in range(s.cap)]) if s.cap else TRUE


def contains_char(s: BStr, c: str):
    return any_char(s, lambda x: x == C(c))


def startswith(s: BStr, p: str):
    if len(p) > s.cap:
        return FALSE
    return z3.And(z3.UGE(s.n, lv(len(p))), *[s.ch[i] == C(c) for i, c in enumerate(p)])


def endswith(s: BStr, p: str):
    L = len(p)
    if L > s.cap:
        return FALSE
    alts = []
    for n in range(L, s.cap + 1):
        alts.append(z3.And(s.n == lv(n), *[s.ch[n - L + i] == C(c) for i, c in enumerate(p)]))
    return z3.Or(alts)


def drop_first(s: BStr, k: int = 1) -> BStr:
    """s[k:]"""
    return BStr(s.ch[k:], z3.If(z3.UGE(s.n, lv(k)), s.n - lv(k), lv(0)))


def drop_last(s: BStr, k: int = 1) -> BStr:
    """s[:-k]"""
    return BStr(s.ch[: max(0, s.cap - k)], z3.If(z3.UGE(s.n, lv(k)), s.n - lv(k), lv(0)))


def take_first(s: BStr, k: int) -> BStr:
    """s[:k]"""
    return BStr(s.ch[:k], z3.If(z3.UGE(s.n, lv(k)), lv(k), s.n))


def last_char(s: BStr):
    e = bv(PAD)
    for i in range(s.cap):
        e = z3.If(s.n == lv(i + 1), s.ch[i], e)
    return e


def replace_char(s: BStr, a: str, b: str) -> BStr:
    """s.replace(a, b) for a single-character `a`."""
    assert len(a) == 1
    ca = C(a)
    m = max(1, len(b))
    segs, cnts = [], []
    for i in range(s.cap):
        hit = s.ch[i] == ca
        segs.append([z3.If(hit, C(b[k]) if k < len(b) else bv(PAD), s.ch[i] if k == 0 else bv(PAD)) for k in range(m)])
        cnts.append(z3.If(inb(s, i), z3.If(hit, lv(len(b)), lv(1)), lv(0)))
    return compact(segs, cnts, s.cap * m)


def replace_str(s: BStr, pat: str, rep: str) -> BStr:
    """s.replace(pat, rep) for a constant non-empty pattern of any length: leftmost, non-overlapping matches, as CPython
    does it.  `rem` counts the characters of the current match that are still to be skipped."""
    m = len(pat)
    if m == 1:
        return replace_char(s, pat, rep)
    assert m >= 2
    for c in pat + rep:
        if c not in IDX:
            raise Unsupported(f"replace: {c!r} outside Sigma")
    RW = 4
    assert m < 2**RW
    rem = z3.BitVecVal(0, RW)
    width = max(1, len(rep))
    segs, cnts = [], []
    for i in range(s.cap):
        if i + m <= s.cap:
            match = z3.And(inb(s, i + m - 1), *[s.ch[i + k] == C(pat[k]) for k in range(m)])
        else:
            match = z3.BoolVal(False)
        start = z3.And(rem == 0, match)
        skip = rem != 0
        segs.append([z3.If(start, C(rep[k]) if k < len(rep) else bv(PAD), s.ch[i] if k == 0 else bv(PAD)) for k in range(width)])
        cnts.append(z3.If(inb(s, i), z3.If(start, lv(len(rep)), z3.If(skip, lv(0), lv(1))), lv(0)))
        rem = z3.If(start, z3.BitVecVal(m - 1, RW), z3.If(skip, rem - 1, rem))
    if not segs:
        return s
    return compact(segs, cnts, s.cap * width)


def remove_chars(s: BStr, drop: list) -> BStr:
    """Delete the positions whose `drop[i]` holds."""
    return compact([[s.ch[i]] for i in range(s.cap)], [z3.If(z3.And(inb(s, i), z3.Not(drop[i])), lv(1), lv(0)) for i in range(s.cap)], s.cap)


def truncate(s: BStr, cap: int) -> BStr:
    return s if s.cap <= cap else BStr(s.ch[:cap], s.n)


# ------------------------------------------------------------------------------------------------ library predicates
P_XID_START = pred(lambda c: c.isidentifier())
P_XID_CONT = pred(lambda c: ("a" + c).isidentifier())
P_UPPER = pred(lambda c: c.isupper())
P_LOWER_OR_TITLE = pred(lambda c: c.islower() or unicodedata.category(c) == "Lt")
P_UPPER_OR_TITLE = pred(lambda c: c.isupper() or unicodedata.category(c) == "Lt")
P_LOWER = pred(lambda c: c.islower())
P_ALPHA = pred(lambda c: c.isalpha())
P_DIGIT = pred(lambda c: c.isdigit())
P_ASCII = pred(lambda c: c.isascii())
P_PRINTABLE = pred(lambda c: c.isprintable())
P_SPACE = pred(lambda c: c.isspace())
P_NFKC_STABLE = pred(lambda c: unicodedata.normalize("NFKC", c) == c)

LOWER = CharMap(str.lower, "lower")
UPPER = CharMap(str.upper, "upper")
TITLE = CharMap(str.title, "title")


def isidentifier(s: BStr):
    if s.cap == 0:
        return FALSE
    return z3.And(s.n != lv(0), P_XID_START(s.ch[0]), *[z3.Or(z3.Not(inb(s, i)), P_XID_CONT(s.ch[i])) for i in range(1, s.cap)])


def iskeyword(s: BStr):
    return in_words(s, keyword.kwlist)


def str_isupper(s: BStr):
    return z3.And(any_char(s, P_UPPER), z3.Not(any_char(s, P_LOWER_OR_TITLE)))


def str_islower(s: BStr):
    return z3.And(any_char(s, P_LOWER), z3.Not(any_char(s, P_UPPER_OR_TITLE)))


def lower(s: BStr) -> BStr:
    return map_chars(s, lambda i: LOWER)


def upper(s: BStr) -> BStr:
    return map_chars(s, lambda i: UPPER)


def capitalize(s: BStr) -> BStr:
    return map_chars(s, lambda i: TITLE if i == 0 else LOWER)


def _repr_body(c: str, quote: str) -> str:
    """The characters repr() emits for `c` inside a literal delimited by `quote`."""
    r = repr(c)  # picks its own quote; strip and fix up
    body = r[1:-1]
    if c == "'":
        return "\\'" if quote == "'" else "'"
    if c == '"':
        return '"' if quote == "'" else '\\"'
    return body


REPR_SQ = None
REPR_DQ = None


def str_repr(s: BStr) -> BStr:
    """repr(s) for a str: CPython's quote choice and escapes."""
    global REPR_SQ, REPR_DQ
    if REPR_SQ is None:
        REPR_SQ = CharMap(lambda c: _repr_body(c, "'"), "repr-sq")
        REPR_DQ = CharMap(lambda c: _repr_body(c, '"'), "repr-dq")
    use_dq = z3.And(contains_char(s, "'"), z3.Not(contains_char(s, '"')))
    sq = map_chars(s, lambda i: REPR_SQ)
    dq = map_chars(s, lambda i: REPR_DQ)
    body = ite_str(use_dq, dq, sq)
    q = BStr([z3.If(use_dq, C('"'), C("'"))], lv(1))
    return concat([q, body, q])


# ------------------------------------------------------------------------------------------------ models / decoding
def decode(m: z3.ModelRef, s) -> str:
    if isinstance(s, str):
        return s
    n = m.eval(s.n, model_completion=True).as_long()
    out = []
    for i in range(min(n, s.cap)):
        k = m.eval(s.ch[i], model_completion=True).as_long()
        out.append(SIGMA[k] if k < len(SIGMA) else "�")
    if n > s.cap:
        out.append(f"<+{n - s.cap} truncated>")
    return "".join(out)


def subst_for(v: BStr, text: str) -> list:
    return [(v.n, lv(len(text)))] + [(v.ch[i], bv(IDX[text[i]] if i < len(text) else 0)) for i in range(v.cap)]


def evaluate(r, subs: list):
    """Evaluate a symbolic result on concrete inputs by substitution + simplification (no solver)."""
    if isinstance(r, (str, bool, int)) or r is None:
        return r
    if isinstance(r, BStr):
        n = z3.simplify(z3.substitute(r.n, *subs)).as_long()
        chars = []
        for i in range(min(n, r.cap)):
            k = z3.simplify(z3.substitute(r.ch[i], *subs)).as_long()
            chars.append(SIGMA[k] if k < len(SIGMA) else "�")
        if n > r.cap:
            chars.append(f"<+{n - r.cap} truncated>")
        return "".join(chars)
    if z3.is_expr(r):
        x = z3.simplify(z3.substitute(r, *subs))
        if z3.is_true(x):
            return True
        if z3.is_false(x):
            return False
        if z3.is_bv_value(x):
            return x.as_long()
        raise ValueError(f"expression does not evaluate to a constant: {x}")
    raise TypeError(type(r))
