"""C06 — every failure is a diagnostic; the generator never crashes or hangs."""
from __future__ import annotations

from pathlib import Path

from ..common import REPO, VERIF, Ob, fingerprint, result
from .. import xh

META = {
    "level": "model_checking",
    "assumptions": [
        "document loaders (ruamel.yaml, json) and pydantic-core validation are not encoded: the claim starts at the typed model",
    ],
}


def obligations(tier: str) -> list[Ob]:
    obs = [
        Ob("exit_relation", "vlib.props.C06:xh_file", {"harness": "C06_exit.py", "funcs": ["exit_relation_3"] + (["exit_relation_5"] if tier == "thorough" else []), "timeout": 60 if tier == "quick" else 240}, timeout_s=700, engine="E2", cpus=2),
    ]
    return obs


def xh_file(harness: str, funcs: list[str], timeout: int, tier: str = "quick", known: list | None = None, **_: object) -> dict:
    hp = VERIF / "harness" / harness
    recs = xh.check_file(hp, funcs, timeout, [str(REPO)], parallel=len(funcs))
    res = xh.summarize(recs, hp, "vlib.props.C06:replay")
    from openapi_python_client import cli

    res["functions"] = [fingerprint(cli.handle_errors)]
    res["stubs"] = ["typer.secho/echo/style replaced by no-ops (output formatting is not the subject)"]
    res["bounds"] = {"errors": "<= 3 (quick) / <= 5 (thorough)", "per_condition_timeout_s": timeout}
    return res


def replay(w: dict) -> dict:
    return xh.replay_call(Path(w["harness"]), w["input"], [str(REPO)])
