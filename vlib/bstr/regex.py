"""Regular expressions on BStr: CPython's sre parse tree compiled to a symbolic leftmost-first backtracking matcher.

Supported: literals, negated literals, `.`, character classes (ranges, negation, \\w \\d \\s), greedy `? + * {m,n}` over a
single-character item, concatenation, capture groups (flattened; the span of group 1 is tracked).  Patterns must not
match the empty string (the scan relies on it).  Anything else raises Unsupported -> the obligation is inconclusive.
"""
from __future__ import annotations

import re
import re._constants as sre_c
import re._parser as sre_parse

import z3

from .alphabet import IDX
from .core import FALSE, TRUE, BStr, Unsupported, bv, inb, lv, pred

_W = re.compile(r"\w")
_D = re.compile(r"\d")
_S = re.compile(r"\s")


def _class_fn(items):
    neg, tests = False, []
    for op, av in items:
        if op is sre_c.NEGATE:
            neg = True
        elif op is sre_c.LITERAL:
            tests.append(lambda c, av=av: ord(c) == av)
        elif op is sre_c.RANGE:
            tests.append(lambda c, av=av: av[0] <= ord(c) <= av[1])
        elif op is sre_c.CATEGORY:
            table = {
                sre_c.CATEGORY_WORD: lambda c: bool(_W.match(c)),
                sre_c.CATEGORY_NOT_WORD: lambda c: not _W.match(c),
                sre_c.CATEGORY_DIGIT: lambda c: bool(_D.match(c)),
                sre_c.CATEGORY_NOT_DIGIT: lambda c: not _D.match(c),
                sre_c.CATEGORY_SPACE: lambda c: bool(_S.match(c)),
                sre_c.CATEGORY_NOT_SPACE: lambda c: not _S.match(c),
            }
            if av not in table:
                raise Unsupported(f"regex category {av}")
            tests.append(table[av])
        else:
            raise Unsupported(f"regex class item {op}")
    if neg:
        return lambda c: not any(t(c) for t in tests)
    return lambda c: any(t(c) for t in tests)


def _flatten(tree, groups, depth=0):
    """-> list of items; item = ("ch", predicate) | ("rep", lo, hi, predicate) | ("gopen", g) | ("gclose", g)"""
    out = []
    for op, av in tree:
        if op is sre_c.SUBPATTERN:
            g = av[0]
            if g is not None:
                out.append(("gopen", g))
            out.extend(_flatten(av[3], groups, depth + 1))
            if g is not None:
                out.append(("gclose", g))
                groups.add(g)
        elif op is sre_c.LITERAL:
            if chr(av) not in IDX:
                raise Unsupported(f"regex literal {chr(av)!r} outside Sigma")
            out.append(("ch", pred(lambda c, av=av: ord(c) == av)))
        elif op is sre_c.NOT_LITERAL:
            out.append(("ch", pred(lambda c, av=av: ord(c) != av)))
        elif op is sre_c.ANY:
            out.append(("ch", pred(lambda c: c != "\n")))
        elif op is sre_c.IN:
            out.append(("ch", pred(_class_fn(av))))
        elif op is sre_c.MAX_REPEAT:
            lo, hi, sub = av
            sub = _flatten(sub, groups, depth + 1)
            if len(sub) != 1 or sub[0][0] != "ch":
                raise Unsupported("regex repeat over a non-single-character item")
            out.append(("rep", lo, hi, sub[0][1]))
        else:
            raise Unsupported(f"regex op {op}")
    return out


class Matcher:
    def __init__(self, pattern: str, s: BStr, flags: int = 0) -> None:
        if flags:
            raise Unsupported("regex flags")
        self.pattern, self.s, self.cap = pattern, s, s.cap
        self.groups: set[int] = set()
        self.items = _flatten(sre_parse.parse(pattern), self.groups)
        if re.compile(pattern).match("") is not None:
            raise Unsupported(f"regex {pattern!r} can match the empty string")
        self._memo: dict = {}

    def ok(self, p_fn, p: int):
        if p >= self.cap:
            return FALSE
        return z3.And(inb(self.s, p), p_fn(self.s.ch[p]))

    def alts(self, k: int, p: int):
        """Alternatives for items[k:] starting at concrete position p, in backtracking priority order:
        list of (cond, end, g1start, g1end)."""
        key = (k, p)
        if key in self._memo:
            return self._memo[key]
        if k == len(self.items):
            res = [(TRUE, p, None, None)]
        else:
            it = self.items[k]
            if it[0] == "gopen":
                res = [(c, e, p if it[1] == 1 else gs, ge) for c, e, gs, ge in self.alts(k + 1, p)]
            elif it[0] == "gclose":
                res = [(c, e, gs, p if it[1] == 1 else ge) for c, e, gs, ge in self.alts(k + 1, p)]
            elif it[0] == "ch":
                if p >= self.cap:
                    res = []
                else:
                    c0 = self.ok(it[1], p)
                    res = [(z3.And(c0, c), e, gs, ge) for c, e, gs, ge in self.alts(k + 1, p + 1)]
            else:
                _, lo, hi, pf = it
                hi = min(hi, self.cap - p)
                run = [TRUE]
                for j in range(max(hi, 0)):
                    run.append(z3.And(run[-1], self.ok(pf, p + j)))
                res = []
                for cnt in range(hi, lo - 1, -1):
                    if cnt < 0 or cnt >= len(run):
                        continue
                    for c, e, gs, ge in self.alts(k + 1, p + cnt):
                        res.append((z3.And(run[cnt], c), e, gs, ge))
        self._memo[key] = res
        return res

    def match_at(self, p: int):
        """(matched, end, g1start, g1end) — first alternative wins; positions are LW bit-vectors."""
        al = self.alts(0, p)
        matched = z3.Or([c for c, *_ in al]) if al else FALSE
        end, gs, ge = lv(p), lv(p), lv(p)
        for c, e, s1, e1 in reversed(al):
            end = z3.If(c, lv(e), end)
            gs = z3.If(c, lv(s1 if s1 is not None else p), gs)
            ge = z3.If(c, lv(e1 if e1 is not None else e), ge)
        return matched, end, gs, ge


class Scan:
    """Non-overlapping leftmost-first scan of a pattern over a BStr (re.finditer semantics)."""

    def __init__(self, pattern: str, s: BStr) -> None:
        m = Matcher(pattern, s)
        self.s, self.matcher = s, m
        nxt = lv(0)
        self.starts, self.inm, self.ends, self.gstart, self.gend = [], [], [], [], []
        for i in range(s.cap):
            matched, end, gs, ge = m.match_at(i)
            st = z3.And(inb(s, i), z3.UGE(lv(i), nxt), matched)
            nxt = z3.If(st, end, nxt)
            self.starts.append(st)
            self.ends.append(end)
            self.gstart.append(gs)
            self.gend.append(ge)
            self.inm.append(z3.ULT(lv(i), nxt))
        self.has_group = 1 in m.groups
        # in group 1 of the current match: track the active match's group span
        if self.has_group:
            self.ing = []
            cur_s, cur_e = lv(0), lv(0)
            for i in range(s.cap):
                cur_s = z3.If(self.starts[i], self.gstart[i], cur_s)
                cur_e = z3.If(self.starts[i], self.gend[i], cur_e)
                self.ing.append(z3.And(self.inm[i], z3.UGE(lv(i), cur_s), z3.ULT(lv(i), cur_e)))
            self.gstarts = []
            cur_s = lv(0)
            for i in range(s.cap):
                cur_s = z3.If(self.starts[i], self.gstart[i], cur_s)
                self.gstarts.append(z3.And(self.inm[i], cur_s == lv(i), self.ing[i]))
