"""C19 — generation writes only where told, never clobbers, converges on overwrite."""
from __future__ import annotations

from ..common import Ob

META = {"level": "model_checking", "assumptions": ["OS-level faults are outside the claim; histories are replayed concretely (finite choice set)"]}

_SEPS = "/\\\0."


def _no_sep(core, z3, s):
    s = core.as_bstr(s)
    bad = z3.Or([core.contains_char(s, c) for c in _SEPS])
    return z3.Or(bad, s.n == core.lv(0))


def spec_project_dir() -> dict:
    import sys

    import z3

    from openapi_python_client import utils

    from ..bstr import core

    mod = sys.modules[__name__]
    if not hasattr(mod, "_dir_kernel"):
        import inspect
        import linecache

        import openapi_python_client as opc

        real_src = inspect.getsource(opc.Project.__init__)
        if 'f"{utils.kebab_case(openapi.title).lower()}-client"' not in real_src or 'self.project_name.replace("-", "_")' not in real_src:
            raise RuntimeError("call site of project/package naming changed: update the isolated kernel")
        src = 'def _dir_kernel(title):\n    project_name = f"{utils.kebab_case(title).lower()}-client"\n    return project_name\n\ndef _pkg_kernel(title):\n    project_name = f"{utils.kebab_case(title).lower()}-client"\n    return project_name.replace("-", "_")\n'
        linecache.cache["<dir_kernel>"] = (len(src), None, src.splitlines(True), "<dir_kernel>")
        ns = {"utils": utils}
        exec(compile(src, "<dir_kernel>", "exec"), ns)  # noqa: S102
        for n in ("_dir_kernel", "_pkg_kernel"):
            ns[n].__module__ = "openapi_python_client._verif_callsite"
        mod._dir_kernel, mod._pkg_kernel = ns["_dir_kernel"], ns["_pkg_kernel"]

    def real(t):
        return [f"{utils.kebab_case(t).lower()}-client"]

    def cv(t):
        r = real(t)[0]
        pkg = r.replace("-", "_")
        bad = any(c in r for c in _SEPS) or r in ("", ".", "..") or any(c in pkg for c in _SEPS)
        return bad, r

    return {
        "fn": mod._dir_kernel,
        "make_args": lambda i: ([i[0]], {}),
        "real": real,
        "terms": lambda enc: [enc.result],
        "violation": lambda enc: _no_sep(core, z3, enc.result),
        "concrete_violation": cv,
        "classes": {},
        "what": "the project directory name derived from the title (kebab_case(title).lower() + '-client') contains no path separator, dot or NUL and is not empty",
        "stub_notes": ["the naming expressions of Project.__init__:69-70 are isolated as functions whose text is checked against the real source on every run"],
    }


def spec_component(kind: str = "pyident") -> dict:
    import z3

    from openapi_python_client import utils

    from ..bstr import core

    if kind == "pyident":
        fn, mk = utils.PythonIdentifier, (lambda i: ([i[0], "field_"], {}))
        real = lambda t: [str(utils.PythonIdentifier(t, "field_"))]  # noqa: E731
    elif kind == "tag":
        fn, mk = utils.PythonIdentifier, (lambda i: ([i[0], "tag"], {}))
        real = lambda t: [str(utils.PythonIdentifier(t, "tag"))]  # noqa: E731
    else:
        fn, mk = utils.ClassName, (lambda i: ([i[0], "field_"], {}))
        real = lambda t: [str(utils.ClassName(t, "field_"))]  # noqa: E731

    def cv(t):
        r = real(t)[0]
        return (any(c in r for c in _SEPS) or r == "", r)

    return {
        "fn": fn, "make_args": mk, "real": real, "terms": lambda enc: [enc.result],
        "violation": lambda enc: _no_sep(core, z3, enc.result),
        "concrete_violation": cv, "classes": {},
        "what": f"the {kind} path component (module / tag directory / endpoint file name) contains no path separator, dot or NUL and is not empty",
    }


SPECS = {"project_dir": spec_project_dir, "component": spec_component}


def replay(w: dict) -> dict:
    if w.get("spec"):
        from ..e1 import replay_spec

        return replay_spec("vlib.props.C19", w)
    if w.get("history") is not None:
        from ..replay_checks import replay_history

        return replay_history(w)
    from ..e2 import replay as r2

    return r2(w)


def obligations(tier: str) -> list[Ob]:
    from ..e1 import spec_obs
    from ..e2 import harness_ob

    q = tier == "quick"
    M = "vlib.props.C19"
    to = 400 if q else 3000
    obs: list[Ob] = []
    obs += spec_obs(M, "project_dir", "project_dir", {}, "project_dir", list(range(0, (3 if q else 5) + 1)), 99, to)
    obs += spec_obs(M, "component", "module_file[pyident]", {"kind": "pyident"}, "component", list(range(0, (3 if q else 5) + 1)), 99, to)
    obs += spec_obs(M, "component", "tag_dir", {"kind": "tag"}, "component", list(range(0, (3 if q else 4) + 1)), 99, to)
    obs += spec_obs(M, "component", "model_module[classname]", {"kind": "classname"}, "component", list(range(0, (2 if q else 3) + 1)), 2, to, must_upto=2)
    obs.append(
        harness_ob(
            "no_clobber_guard", "C19_guard.py", tier, timeout=120 if q else 400, cpus=1, replay_func="vlib.props.C19:replay",
            encoded=["openapi_python_client:Project.build"],
            stubs=["Path.mkdir -> raises FileExistsError or succeeds (symbolic); the five build steps are recording stubs"],
            bounds={"pre-state": "directory exists or not", "overwrite": "both"},
        )
    )
    obs.append(
        harness_ob(
            "filesystem_effects", "C19_effects.py", tier, timeout=150 if q else 400, cpus=3, replay_func="vlib.props.C19:replay",
            encoded=["openapi_python_client:Project.build", "openapi_python_client:Project._create_package", "openapi_python_client:Project._build_metadata", "openapi_python_client:Project._build_models", "openapi_python_client:Project._build_api", "openapi_python_client:Project._run_post_hooks"],
            stubs=["Path.mkdir / Path.write_text / shutil.rmtree / shutil.which / subprocess.run are recording stubs; template rendering returns the empty string; GeneratorData.models/enums (one-shot generators) are materialised as lists"],
            bounds={"metadata flavours": 4, "overwrite": "both", "output directory pre-exists": "both", "post hooks": "none / one", "document": "1 model, 1 enum, 2 operations under 2 tags"},
        )
    )
    obs.append(Ob("replay_histories", "vlib.replay_checks:histories", {}, timeout_s=900 if q else 3000, engine="replay", cpus=1))
    return obs
