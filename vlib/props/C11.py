"""C11 — generated code type-checks and its annotations are truthful (the run-time half is decided)."""
from __future__ import annotations

from ..common import Ob
from ..e3 import replay, skeleton_obs  # noqa: F401

META = {
    "level": "model_checking",
    "assumptions": ["'passes mypy' is not decided by a solver: mypy is an external static analyser with no encoding here; it is run as a concrete gate (engine=replay) over the skeleton packages in both enum styles; only 'annotations describe what actually happens' is solver-decided"],
}


def obligations(tier: str) -> list[Ob]:
    obs = skeleton_obs("C11", "model", ["ann_"], tier, label="annotations")
    obs += skeleton_obs("C11", "model", ["ann_"], tier, names=["enums", "unions", "nested"], config={"literal_enums": True}, label="annotations-literal-enums")
    obs += skeleton_obs("C11", "endpoint", ["req_"], tier, names=["bodies", "params"], label="encoder-accepts-annotated-values")
    obs.append(Ob("typecheck", "vlib.replay_checks:typecheck", {}, timeout_s=900, engine="replay", cpus=2))
    return obs


def replay_any(w: dict) -> dict:
    if w.get("replay_func", "").endswith("replay_typecheck"):
        from ..replay_checks import replay_typecheck

        return replay_typecheck(w)
    return replay(w)
