"""The finite alphabet Sigma of the bounded-string engine (a stated bound of every E1 claim).

Sigma = all 128 ASCII characters + two representatives of every equivalence class of the per-character
*signature* (everything the modelled str/re operations can observe about one character), closed under
lower/upper/title so that case mappings stay inside Sigma.  Computed from the running interpreter's Unicode
tables and cached.  U+03A3 (context-dependent lower-casing), surrogates and U+0000..U+007F duplicates are
excluded; exclusions are part of the stated bound.
"""
from __future__ import annotations

import json
import re
import sys
import unicodedata
from pathlib import Path

_CACHE = Path(__file__).resolve().parent.parent.parent / ".cache"
_LINE_BREAKS = set("\n\r\x0b\x0c\x1c\x1d\x1e\x85  ")
_W = re.compile(r"\w")
_S = re.compile(r"\s")
_D = re.compile(r"\d")


def signature(c: str) -> tuple:
    return (
        bool(_W.match(c)),
        bool(_S.match(c)),
        bool(_D.match(c)),
        c.isidentifier(),
        ("a" + c).isidentifier(),
        c.isupper(),
        c.islower(),
        unicodedata.category(c) == "Lt",
        c.isalpha(),
        c.isdigit(),
        c.isalnum(),
        c.isprintable(),
        c.isspace(),
        len(c.lower()),
        len(c.upper()),
        len(c.title()),
        c.lower() == c,
        c.upper() == c,
        c.title() == c,
        c in _LINE_BREAKS,
        c.isascii(),
        unicodedata.normalize("NFKC", c) == c,
    )


def _build() -> list[str]:
    classes: dict[tuple, list[str]] = {}
    for cp in range(128, 0x110000):
        if 0xD800 <= cp <= 0xDFFF or cp == 0x3A3:
            continue
        c = chr(cp)
        s = signature(c)
        lst = classes.setdefault(s, [])
        if len(lst) < 2:
            lst.append(c)
    sigma = [chr(i) for i in range(128)]
    seen = set(sigma)
    for cs in classes.values():
        for c in cs:
            if c not in seen:
                sigma.append(c)
                seen.add(c)
    changed = True
    while changed:
        changed = False
        for c in list(sigma):
            for m in (c.lower(), c.upper(), c.title(), c.lower().upper(), c.upper().lower()):
                for d in m:
                    if d not in seen and d != "Σ":
                        sigma.append(d)
                        seen.add(d)
                        changed = True
    # order by signature (most-used observations first) so that every table predicate is a union of few index ranges
    sigma.sort(key=lambda c: (signature(c), ord(c)))
    return sigma


def load() -> list[str]:
    tag = f"alphabet-{sys.version_info[0]}.{sys.version_info[1]}-{unicodedata.unidata_version}-v4.json"
    f = _CACHE / tag
    if f.exists():
        try:
            return json.loads(f.read_text())
        except Exception:
            pass
    sigma = _build()
    try:
        _CACHE.mkdir(exist_ok=True)
        tmp = f.with_suffix(f".{id(sigma)}.tmp")
        tmp.write_text(json.dumps(sigma))
        tmp.replace(f)
    except OSError:
        pass
    return sigma


SIGMA: list[str] = load()
IDX: dict[str, int] = {c: i for i, c in enumerate(SIGMA)}
N_CLASSES = len({signature(c) for c in SIGMA})
assert len(SIGMA) < 1000
