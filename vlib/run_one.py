"""Run one obligation function in this process and write its result dict as JSON.

usage: python -m vlib.run_one <module:function> <params.json> <out.json>
"""
from __future__ import annotations

import importlib
import json
import sys
import time
import traceback

from .common import jsonable, result


def main() -> None:
    func, params_path, out_path = sys.argv[1:4]
    params = json.loads(open(params_path).read())
    t0 = time.time()
    try:
        modname, fname = func.split(":")
        fn = getattr(importlib.import_module(modname), fname)
        res = fn(**params)
    except Exception:  # an obligation that crashes is a harness error, never a verdict
        res = result("error", "obligation raised:\n" + traceback.format_exc()[-3000:])
    res["wall_s"] = round(time.time() - t0, 2)
    with open(out_path, "w") as f:
        json.dump(jsonable(res), f)


if __name__ == "__main__":
    main()
