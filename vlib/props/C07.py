"""C07 — nothing in the document is dropped silently."""
from __future__ import annotations

from ..common import Ob
from ..e2 import harness_ob, replay  # noqa: F401

META = {"level": "model_checking", "assumptions": ["census on arbitrary documents is outside the claim: only the skeleton family and solver-produced colliding pairs are replayed"]}


def obligations(tier: str) -> list[Ob]:
    q = tier == "quick"
    return [
        harness_ob(
            "operation_accounting", "C07_accounting.py", tier, funcs=["accounting_tags", "accounting_presence"], timeout=240 if q else 900, cpus=2,
            encoded=["openapi_python_client.parser.openapi:EndpointCollection.from_data"],
            stubs=["Endpoint.from_data -> arbitrary Endpoint | ParseError per operation (the accounting loop is the subject)"],
            bounds={"operations": 3, "tag lists": 4, "generate_all_tags": "both"},
        ),
        harness_ob(
            "schema_accounting", "C06_builders.py", tier, funcs=["create_schemas_terminates"], timeout=120 if q else 400, cpus=1,
            encoded=["openapi_python_client.parser.properties:_create_schemas"],
            stubs=["update_schemas_with_data -> arbitrary success/failure table"],
            bounds={"components": 3},
        ),
        harness_ob(
            "removal_listed", "C08_removal.py", tier, timeout=120 if q else 600, cpus=2,
            encoded=["openapi_python_client.parser.properties:_process_model_errors"],
            bounds={"dependency graph": "3 (4 thorough) nodes"},
        ),
        Ob("replay_census", "vlib.replay_checks:census", {}, timeout_s=900, engine="replay", cpus=1),
    ]
