"""C09 — derived names are valid identifiers and never merge silently."""
from __future__ import annotations

import keyword

import z3

from ..bstr import core
from ..common import Ob
from ..e1 import replay_spec
from ..findings import CLASSES

META = {
    "level": "model_checking",
    "assumptions": [
        "names are strings of bounded length over the alphabet Sigma (stated per obligation)",
        "identifier validity is str.isidentifier() and not keyword.iskeyword(); NFKC folding of identifiers by the parser is outside the claim",
    ],
}


def _valid(s: str) -> bool:
    return s.isidentifier() and not keyword.iskeyword(s)


def spec_pyident_valid(prefix: str = "field_", skip: bool = False) -> dict:
    from openapi_python_client import utils

    def real(t):
        return [str(utils.PythonIdentifier(t, prefix, skip_snake_case=skip))]

    def cv(t):
        r = str(utils.PythonIdentifier(t, prefix, skip_snake_case=skip))
        return (not _valid(r), r)

    return {
        "fn": utils.PythonIdentifier,
        "make_args": lambda i: ([i[0], prefix], {"skip_snake_case": skip}),
        "real": real,
        "terms": lambda enc: [enc.result],
        "violation": lambda enc: z3.Or(z3.Not(core.isidentifier(core.as_bstr(enc.result))), core.iskeyword(core.as_bstr(enc.result))),
        "concrete_violation": cv,
        "classes": CLASSES,
        "what": f"PythonIdentifier(v, {prefix!r}, skip_snake_case={skip}) is a non-keyword identifier",
    }


def spec_classname_valid(prefix: str = "field_") -> dict:
    from openapi_python_client import utils

    def real(t):
        return [str(utils.ClassName(t, prefix))]

    def cv(t):
        r = str(utils.ClassName(t, prefix))
        return (not _valid(r), r)

    return {
        "fn": utils.ClassName,
        "make_args": lambda i: ([i[0], prefix], {}),
        "real": real,
        "terms": lambda enc: [enc.result],
        "violation": lambda enc: z3.Or(z3.Not(core.isidentifier(core.as_bstr(enc.result))), core.iskeyword(core.as_bstr(enc.result))),
        "concrete_violation": cv,
        "classes": CLASSES,
        "what": f"ClassName(v, {prefix!r}) is a non-keyword identifier",
    }


SPECS = {"pyident_valid": spec_pyident_valid, "classname_valid": spec_classname_valid}


def replay(w: dict) -> dict:
    return replay_spec("vlib.props.C09", w)


def obligations(tier: str) -> list[Ob]:
    from ..e1 import spec_obs

    q = tier == "quick"
    obs: list[Ob] = []
    M = "vlib.props.C09"
    to = 420 if q else 3000
    for prefix in (["field_"] if q else ["field_", "f", "tag"]):
        obs += spec_obs(M, "pyident_valid", f"pyident_valid[{prefix}]", {"prefix": prefix, "skip": False}, "pyident_valid", list(range(0, (4 if q else 5) + 1)), 4, to, must_upto=4)
        obs += spec_obs(M, "classname_valid", f"classname_valid[{prefix}]", {"prefix": prefix}, "classname_valid", list(range(0, (2 if q else 3) + 1)), 2, to, must_upto=2)
    from ..e2 import harness_ob

    obs.append(
        harness_ob(
            "scope_conflicts", "C09_scopes.py", tier, timeout=240 if q else 900, cpus=6,
            finding_by_func={"param_conflicts_2": "C09-F5", "attr_conflicts_2": "C09-F6"},
            encoded=["openapi_python_client.parser.openapi:Endpoint._check_parameters_for_conflicts", "openapi_python_client.parser.properties.model_property:_process_properties", "openapi_python_client.parser.properties.model_property:_resolve_naming_conflict"],
            stubs=["names come from finite pools (reserved names, their disambiguated spellings, delimiter/case variants, controls) selected by symbolic indices"],
            bounds={"parameters": "2 (quick) / 3 (thorough) per operation over 3 locations", "attributes": "2-3 per model", "name pool": 12},
        )
    )
    obs += spec_obs(M, "pyident_valid", "pyident_raw_valid[field_]", {"prefix": "field_", "skip": True}, "pyident_raw_valid", list(range(0, (3 if q else 5) + 1)), 5, to)
    return obs
