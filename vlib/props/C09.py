"""C09 — derived names are valid identifiers and never merge silently."""
from __future__ import annotations

import keyword

import z3

from ..bstr import core
from ..common import Ob
from ..e1 import replay_spec
from ..findings import CLASSES

META = {
    "level": "model_checking",
    "assumptions": [
        "names are strings of bounded length over the alphabet Sigma (stated per obligation)",
        "identifier validity is str.isidentifier() and not keyword.iskeyword(); NFKC folding of identifiers by the parser is outside the claim",
    ],
}


def _valid(s: str) -> bool:
    return s.isidentifier() and not keyword.iskeyword(s)


def spec_pyident_valid(prefix: str = "field_", skip: bool = False, domain: str = "sigma") -> dict:
    """domain="letters": the claim is restricted to names over [A-Za-z_] that contain a letter — the names for which a
    degenerate field_prefix ('' or one that does not start an identifier by itself) is still expected to work, because
    they only need the reserved-word / leading-underscore repair, not the prefix."""
    from openapi_python_client import utils

    def real(t):
        return [str(utils.PythonIdentifier(t, prefix, skip_snake_case=skip))]

    def cv(t):
        r = str(utils.PythonIdentifier(t, prefix, skip_snake_case=skip))
        return (not _valid(r), r)

    classes = dict(CLASSES)
    glue = sorted({kw[len(prefix):] for kw in keyword.kwlist if prefix and kw.startswith(prefix) and len(kw) > len(prefix) and kw[len(prefix):].islower()})

    def glue_sym(inputs):
        v = inputs[0]
        stripped = core.lower(core.remove_chars(v, [v.ch[i] == core.C("_") for i in range(v.cap)]))
        return core.in_words(stripped, glue)

    def glue_conc(t):
        return t.replace("_", "").lower() in glue

    # prefix + remainder spells a keyword (fix_reserved_words runs before the prefix is added): e.g. 'f' + '_rom'
    classes["prefix_glues_keyword"] = (glue_sym, glue_conc)
    return {
        "fn": utils.PythonIdentifier,
        "make_args": lambda i: ([i[0], prefix], {"skip_snake_case": skip}),
        "real": real,
        "terms": lambda enc: [enc.result],
        "violation": lambda enc: z3.Or(z3.Not(core.isidentifier(core.as_bstr(enc.result))), core.iskeyword(core.as_bstr(enc.result))),
        "concrete_violation": cv,
        "classes": classes,
        "what": f"PythonIdentifier(v, {prefix!r}, skip_snake_case={skip}) is a non-keyword identifier" + (" (names over [A-Za-z_] containing a letter)" if domain == "letters" else ""),
        **({"extra": _letters_domain, "test_extra": ["_class", "_if", "__import", "_or", "for", "_x", "a_b", "Ab", "_A"], "domain_filter": lambda t: all(c.isascii() and (c.isalpha() or c == "_") for c in t) and any(c.isalpha() for c in t)} if domain == "letters" else {}),
    }


def _letters_domain(enc):
    p_ok = core.pred(lambda c: c.isascii() and (c.isalpha() or c == "_"))
    p_letter = core.pred(lambda c: c.isascii() and c.isalpha())
    v = enc.inputs[0]
    return [core.all_char(v, p_ok), core.any_char(v, p_letter)]


def spec_classname_valid(prefix: str = "field_") -> dict:
    from openapi_python_client import utils

    def real(t):
        return [str(utils.ClassName(t, prefix))]

    def cv(t):
        r = str(utils.ClassName(t, prefix))
        return (not _valid(r), r)

    return {
        "fn": utils.ClassName,
        "make_args": lambda i: ([i[0], prefix], {}),
        "real": real,
        "terms": lambda enc: [enc.result],
        "violation": lambda enc: z3.Or(z3.Not(core.isidentifier(core.as_bstr(enc.result))), core.iskeyword(core.as_bstr(enc.result))),
        "concrete_violation": cv,
        "classes": CLASSES,
        "what": f"ClassName(v, {prefix!r}) is a non-keyword identifier",
    }


def spec_package_name() -> dict:
    """The package name Project.__init__ derives from info.title when no override is given (call site isolated as a
    function whose text is checked against the real source, shared with C19)."""
    from openapi_python_client import utils

    from .C19 import spec_project_dir

    spec_project_dir()  # builds and source-checks the isolated kernels
    import vlib.props.C19 as c19

    def real(t):
        return [f"{utils.kebab_case(t).lower()}-client".replace("-", "_")]

    def cv(t):
        r = real(t)[0]
        return (not _valid(r), r)

    return {
        "fn": c19._pkg_kernel,
        "make_args": lambda i: ([i[0]], {}),
        "real": real,
        "terms": lambda enc: [enc.result],
        "violation": lambda enc: z3.Or(z3.Not(core.isidentifier(core.as_bstr(enc.result))), core.iskeyword(core.as_bstr(enc.result))),
        "concrete_violation": cv,
        "classes": CLASSES,
        "what": "the package name derived from info.title (kebab_case(title).lower() + '-client', dashes to underscores) is a non-keyword identifier",
    }


SPECS = {"pyident_valid": spec_pyident_valid, "classname_valid": spec_classname_valid, "package_name": spec_package_name}


def replay(w: dict) -> dict:
    return replay_spec("vlib.props.C09", w)


def obligations(tier: str) -> list[Ob]:
    from ..e1 import spec_obs

    q = tier == "quick"
    obs: list[Ob] = []
    M = "vlib.props.C09"
    to = 420 if q else 1500
    for prefix in (["field_"] if q else ["field_", "f", "tag"]):
        # thorough: the default prefix goes one character further (n = 5 / 3, allowed to run out of time: must_upto);
        # the other prefixes repeat the quick bounds
        deep = (not q) and prefix == "field_"
        obs += spec_obs(M, "pyident_valid", f"pyident_valid[{prefix}]", {"prefix": prefix, "skip": False}, "pyident_valid", list(range(0, (5 if deep else 4) + 1)), 4, to, must_upto=4)
        obs += spec_obs(M, "classname_valid", f"classname_valid[{prefix}]", {"prefix": prefix}, "classname_valid", list(range(0, (3 if deep else 2) + 1)), 2, to, must_upto=2)
    # other field_prefix values: the degenerate empty prefix and a prefix that can glue onto a keyword remainder
    for prefix in ["", "f", "el"]:
        obs += spec_obs(M, "pyident_valid", f"pyident_valid_letters[{prefix!r}]", {"prefix": prefix, "skip": False, "domain": "letters"}, "pyident_valid_letters", list(range(1, (5 if q else 7) + 1)), 99, to)
    obs += spec_obs(M, "package_name", "package_name_valid", {}, "package_name_valid", list(range(0, (3 if q else 5) + 1)), 99, to)
    from ..e2 import harness_ob

    obs.append(
        harness_ob(
            "scope_conflicts", "C09_scopes.py", tier, timeout=240 if q else 900, cpus=6,
            finding_by_func={"param_conflicts_2": "C09-F5", "attr_conflicts_2": "C09-F6"},
            encoded=["openapi_python_client.parser.openapi:Endpoint._check_parameters_for_conflicts", "openapi_python_client.parser.properties.model_property:_process_properties", "openapi_python_client.parser.properties.model_property:_resolve_naming_conflict"],
            stubs=["names come from finite pools (reserved names, their disambiguated spellings, delimiter/case variants, controls) selected by symbolic indices"],
            bounds={"parameters": "2 (quick) / 3 (thorough) per operation over 3 locations", "attributes": "2-3 per model", "name pool": 12},
        )
    )
    obs += spec_obs(M, "pyident_valid", "pyident_raw_valid[field_]", {"prefix": "field_", "skip": True}, "pyident_raw_valid", list(range(0, (3 if q else 5) + 1)), 5, to)
    return obs
