"""C16: configuration options have their documented effect on the parser (real functions)."""
from pathlib import Path

from openapi_python_client import schema as oai
from openapi_python_client.config import ClassOverride, Config, ConfigFile, MetaType
from openapi_python_client.parser.bodies import BodyType, body_from_data
from openapi_python_client.parser.errors import ParseError
from openapi_python_client.parser.properties import Schemas
from openapi_python_client.parser.properties.schemas import Class
from openapi_python_client.utils import get_content_type

TYPES = ("application/json", "application/x-www-form-urlencoded", "multipart/form-data", "application/octet-stream", "application/vnd.api+json", "text/csv", "application/zip", "image/png")
TARGETS = ("application/json", "application/x-www-form-urlencoded", "multipart/form-data", "application/octet-stream")
CFGS = {(s, t): Config.from_sources(ConfigFile(post_hooks=[], content_type_overrides={s: t}), MetaType.NONE, Path("d.json"), "utf-8", True, None) for s in TYPES for t in TARGETS}
PLAIN = Config.from_sources(ConfigFile(post_hooks=[]), MetaType.NONE, Path("d.json"), "utf-8", True, None)
EXPECT = {"application/json": BodyType.JSON, "application/x-www-form-urlencoded": BodyType.DATA, "multipart/form-data": BodyType.FILES, "application/octet-stream": BodyType.CONTENT}
SCHEMA = {"type": "object", "properties": {"a": {"type": "string"}}}


def _pick(pool, i):
    for k in range(len(pool)):
        if i == k:
            return pool[k]
    return pool[0]


def content_type_override(src: int, tgt: int) -> bool:
    """
    A media type mapped by content_type_overrides is classified as its target, and is still sent as itself.
    pre: 0 <= src < 8 and 0 <= tgt < 4
    post: _
    """
    s, t = _pick(TYPES, src), _pick(TARGETS, tgt)
    cfg = CFGS[(s, t)]
    if get_content_type(s, cfg) != t:
        return False
    op = oai.Operation.model_validate({"requestBody": {"content": {s: {"schema": SCHEMA}}}, "responses": {}})
    bodies, _ = body_from_data(data=op, schemas=Schemas(), request_bodies={}, config=cfg, endpoint_name="ep")
    if len(bodies) != 1 or isinstance(bodies[0], ParseError):
        return False
    b = bodies[0]
    return b.body_type == EXPECT[t] and b.content_type == s


def no_override_no_effect(src: int) -> bool:
    """
    pre: 0 <= src < 8
    post: _
    """
    s = _pick(TYPES, src)
    op = oai.Operation.model_validate({"requestBody": {"content": {s: {"schema": SCHEMA}}}, "responses": {}})
    bodies, _ = body_from_data(data=op, schemas=Schemas(), request_bodies={}, config=PLAIN, endpoint_name="ep")
    if len(bodies) != 1:
        return False
    want = EXPECT.get(s, BodyType.JSON if s.endswith("+json") else None)
    if want is None:
        return isinstance(bodies[0], ParseError)
    return not isinstance(bodies[0], ParseError) and bodies[0].body_type == want and bodies[0].content_type == s


NAMES = ("Thing", "other_thing", "A B")
OVR = {
    0: {},
    1: {"Thing": ClassOverride(class_name="Renamed")},
    2: {"Thing": ClassOverride(module_name="custom_mod")},
    3: {"Thing": ClassOverride(class_name="Renamed", module_name="custom_mod")},
    4: {"OtherThing": ClassOverride(class_name="Xyz")},
}
OCFG = {k: Config.from_sources(ConfigFile(post_hooks=[], class_overrides=v), MetaType.NONE, Path("d.json"), "utf-8", True, None) for k, v in OVR.items()}


from openapi_python_client.utils import ClassName, PythonIdentifier  # noqa: E402

_MODS = {c: str(PythonIdentifier(ClassName(c, "field_"), "field_")) for c in ("Renamed", "Xyz")}


def class_overrides_only_rename(name: int, ovr: int) -> bool:
    """
    pre: 0 <= name < 3 and 0 <= ovr < 5
    post: _
    """
    n = _pick(NAMES, name)
    base = Class.from_string(string=n, config=OCFG[0])
    cfg = OCFG[0]
    for k in range(5):
        if ovr == k:
            cfg = OCFG[k]
    got = Class.from_string(string=n, config=cfg)
    o = cfg.class_overrides.get(str(base.name))
    want_name = o.class_name if (o is not None and o.class_name) else str(base.name)
    if o is not None and o.module_name:
        want_mod = o.module_name
    elif o is not None and o.class_name:
        want_mod = _MODS[o.class_name]
    else:
        want_mod = str(base.module_name)
    return str(got.name) == want_name and str(got.module_name) == want_mod


HOOKS = (None, [], ["echo hi"])


def default_post_hooks(meta: int, hooks: int) -> bool:
    """
    pre: 0 <= meta < 4 and 0 <= hooks < 3
    post: _
    """
    mt = _pick((MetaType.NONE, MetaType.POETRY, MetaType.SETUP, MetaType.PDM), meta)
    h = _pick(HOOKS, hooks)
    cfg = Config.from_sources(ConfigFile(post_hooks=h), mt, Path("d.json"), "utf-8", False, None)
    if h is not None:
        return cfg.post_hooks == h
    if mt == MetaType.NONE:
        return cfg.post_hooks == ["ruff check . --fix --extend-select=I", "ruff format ."]
    return cfg.post_hooks == ["ruff check --fix .", "ruff format ."]


# ---------------------------------------------------------------------------- responses honour the override too
from openapi_python_client.parser.responses import _source_by_content_type  # noqa: E402

RTYPES = ("text/json", "application/x-report", "application/zip", "text/csv", "application/json", "vendor/x")
RTARGETS = ("application/json", "text/plain", "application/octet-stream", "application/vnd.x+json")
RCFGS = {(s, t): Config.from_sources(ConfigFile(post_hooks=[], content_type_overrides={s: t}), MetaType.NONE, Path("d.json"), "utf-8", True, None) for s in RTYPES for t in RTARGETS}


def response_content_type_override(src: int, tgt: int) -> bool:
    """
    An overridden media type in a *response* is decoded exactly like the media type it maps to.
    pre: 0 <= src < 6 and 0 <= tgt < 4
    post: _
    """
    s, t = _pick(RTYPES, src), _pick(RTARGETS, tgt)
    got = _source_by_content_type(s, RCFGS[(s, t)])
    want = _source_by_content_type(t, PLAIN)
    return want is not None and got == want
