"""C06 / C14: enum builders never raise; values whose member names coincide are reported, never merged."""
from pathlib import Path

from openapi_python_client import schema as oai
from openapi_python_client.config import Config, ConfigFile, MetaType
from openapi_python_client.parser.errors import PropertyError
from openapi_python_client.parser.properties import EnumProperty, LiteralEnumProperty, Schemas

CFG = Config.from_sources(ConfigFile(post_hooks=[]), MetaType.NONE, Path("doc.json"), "utf-8", True, None)
CFG_LIT = Config.from_sources(ConfigFile(post_hooks=[], literal_enums=True), MetaType.NONE, Path("doc.json"), "utf-8", True, None)
VALUES = ("a", "A", "a b", "a-b", "a_b", "1", "", "²", "b", "VALUE_0", "value_1")
# known-finding class C06-F1 / C14-F1: two values whose derived member key coincides before sanitising (raises
# ValueError) or after it (silently merged)


def _pick(pool, i):
    for k in range(len(pool)):
        if i == k:
            return pool[k]
    return pool[0]


def _schema(values, default=None):
    return oai.Schema.model_construct(enum=list(values), title=None, default=default, description=None, example=None, type=oai.DataType.STRING, oneOf=[], anyOf=[], allOf=[], nullable=False)


def _key(v: str, i: int) -> str:
    from openapi_python_client import utils

    k = v.upper() if v and v[0].isalpha() else f"VALUE_{i}"
    return utils.snake_case(k).upper()


_KEYS = {(v, i): _key(v, i) for v in VALUES for i in range(3)}
_ESC = {v: v.replace('"', chr(92) + '"') for v in VALUES}


def _keys_collide(vals) -> bool:
    ks = [_KEYS[(v, i)] for i, v in enumerate(vals)]
    return len(set(ks)) != len(ks)


def enum_build_no_raise(n: int, v0: int, v1: int) -> bool:
    """
    pre: 1 <= n <= 2 and 0 <= v0 < 11 and 0 <= v1 < 11 and v0 != v1
    post: _
    """
    vals = [_pick(VALUES, v0), _pick(VALUES, v1)][:n]
    prop, _ = EnumProperty.build(data=_schema(vals), name="e", required=True, schemas=Schemas(), parent_name="P", config=CFG)
    if isinstance(prop, PropertyError):
        return True
    return len(prop.values) == len(vals)


def enum_build_no_raise__excl(n: int, v0: int, v1: int) -> bool:
    """
    pre: 1 <= n <= 2 and 0 <= v0 < 11 and 0 <= v1 < 11 and v0 != v1
    post: _
    """
    vals = [_pick(VALUES, v0), _pick(VALUES, v1)][:n]
    if _keys_collide(vals):
        return True
    prop, _ = EnumProperty.build(data=_schema(vals), name="e", required=True, schemas=Schemas(), parent_name="P", config=CFG)
    if isinstance(prop, PropertyError):
        return True
    if len(prop.values) != len(vals):
        return False
    # every listed value is the wire value of exactly one member
    stored = sorted(prop.values.values())
    return stored == sorted(_ESC[v] for v in vals)


def _raw_key(v: str, i: int) -> str:
    return v.upper() if v and v[0].isalpha() else f"VALUE_{i}"


def enum_raw_key_collision_is_reported(v0: int, v1: int) -> bool:
    """
    Two listed values whose member names coincide already before sanitising ('a' / 'A', or a value that spells the
    positional name of a later one: 'value_1' followed by '1') are never merged into one member: the builder does not
    hand back a property.  (That it raises ValueError instead of returning a diagnostic is finding C06-F1, recorded
    separately; a *silent* merge of these would be a different, unrecorded violation.)
    pre: 0 <= v0 < 11 and 0 <= v1 < 11 and v0 != v1
    post: _
    """
    vals = [_pick(VALUES, v0), _pick(VALUES, v1)]
    collide = False
    for (a, i) in ((v0, 0),):
        for (b, j) in ((v1, 1),):
            for k in range(len(VALUES)):
                for m in range(len(VALUES)):
                    if a == k and b == m and _raw_key(VALUES[k], i) == _raw_key(VALUES[m], j):
                        collide = True
    if not collide:
        return True
    try:
        prop, _ = EnumProperty.build(data=_schema(vals), name="e", required=True, schemas=Schemas(), parent_name="P", config=CFG)
    except ValueError:
        return True
    return isinstance(prop, PropertyError)


def literal_enum_build_no_raise(n: int, v0: int, v1: int) -> bool:
    """
    pre: 1 <= n <= 2 and 0 <= v0 < 11 and 0 <= v1 < 11 and v0 != v1
    post: _
    """
    vals = [_pick(VALUES, v0), _pick(VALUES, v1)][:n]
    prop, _ = LiteralEnumProperty.build(data=_schema(vals), name="e", required=True, schemas=Schemas(), parent_name="P", config=CFG)
    if isinstance(prop, PropertyError):
        return True
    return prop.values == set(vals)


INTS = (-4, 0, 2, 10, -1)


def int_enum_build(n: int, a: int, b: int) -> bool:
    """
    pre: 1 <= n <= 2 and 0 <= a < 5 and 0 <= b < 5 and a != b
    post: _
    """
    vals = [_pick(INTS, a), _pick(INTS, b)][:n]
    data = oai.Schema.model_construct(enum=list(vals), title=None, default=None, description=None, example=None, type=oai.DataType.INTEGER, oneOf=[], anyOf=[], allOf=[], nullable=False)
    prop, _ = EnumProperty.build(data=data, name="e", required=True, schemas=Schemas(), parent_name="P", config=CFG)
    if isinstance(prop, PropertyError):
        return True
    return sorted(prop.values.values()) == sorted(vals) and len(prop.values) == len(vals)


VALUE_LISTS = (("PENDING", "SHIPPED"), ("pending", "shipped"), ("SHIPPED", "PENDING"), ("1-low", "2-high"), ("1-urgent", "2-normal"), ("a", "b"), ("c", "d"), ("a",))


def enum_same_name_conflict(first: int, second: int, literal: bool) -> bool:
    """
    Two enum schemas that resolve to the same class name are the same class only if they list the same values;
    otherwise the second one is reported (never silently merged into the first), under both enum styles.
    pre: 0 <= first < 8 and 0 <= second < 8
    post: _
    """
    a, b = list(_pick(VALUE_LISTS, first)), list(_pick(VALUE_LISTS, second))
    cls = LiteralEnumProperty if literal else EnumProperty
    cfg = CFG_LIT if literal else CFG
    p1, schemas = cls.build(data=_schema(a), name="status", required=True, schemas=Schemas(), parent_name="Order", config=cfg)
    if isinstance(p1, PropertyError):
        return False
    p2, schemas2 = cls.build(data=_schema(b), name="status", required=True, schemas=schemas, parent_name="Order", config=cfg)
    same = sorted(a) == sorted(b)
    if same:
        return not isinstance(p2, PropertyError) and p2.class_info == p1.class_info
    return isinstance(p2, PropertyError) and schemas2.classes_by_name[p1.class_info.name] is p1


# ------------------------------------------------------------------------------------------------ class name already taken
from openapi_python_client.parser.properties import ModelProperty  # noqa: E402

_OBJ = oai.Schema.model_validate({"type": "object", "properties": {"x": {"type": "integer"}}})


def _taken_by_model(cfg):
    m, s = ModelProperty.build(data=_OBJ, name="OrderStatus", schemas=Schemas(), required=True, parent_name=None, config=cfg, process_properties=False, roots={"r"})
    assert isinstance(m, ModelProperty)
    return s


_S_MODEL = {False: _taken_by_model(CFG), True: _taken_by_model(CFG_LIT)}


def enum_name_taken(literal: bool, taken_by: int, req1: bool, req2: bool, with_default: bool) -> bool:
    """
    Building an inline enum whose class name is already registered never raises: a class of another kind (a model, an
    enum of the other style) is a diagnostic; the same enum (same values) is shared, and the second property keeps its
    *own* name, requiredness and default.
    pre: 0 <= taken_by < 3
    post: _
    """
    cls, other = (LiteralEnumProperty, EnumProperty) if literal else (EnumProperty, LiteralEnumProperty)
    cfg = CFG_LIT if literal else CFG
    vals = ["on", "off"]
    if taken_by == 0:
        schemas = _S_MODEL[True if literal else False]
    elif taken_by == 1:
        p0, schemas = other.build(data=_schema(vals), name="status", required=True if req1 else False, schemas=Schemas(), parent_name="Order", config=cfg)
        if isinstance(p0, PropertyError):
            return False
    else:
        p0, schemas = cls.build(data=_schema(vals), name="status", required=True if req1 else False, schemas=Schemas(), parent_name="Order", config=cfg)
        if isinstance(p0, PropertyError):
            return False
    p, _ = cls.build(data=_schema(vals, default="off" if with_default else None), name="status", required=True if req2 else False, schemas=schemas, parent_name="Order", config=cfg)
    if taken_by < 2:
        return isinstance(p, PropertyError)
    if isinstance(p, PropertyError):
        return False
    return p.required == (True if req2 else False) and p.name == "status" and (p.default is not None) == (True if with_default else False) and p.class_info == p0.class_info
