"""C13: every convert_value either rejects the default or emits Python source that denotes the equivalent typed value."""
import ast
import datetime
import math
import uuid
from pathlib import Path

from dateutil.parser import isoparse

from openapi_python_client.parser.errors import PropertyError
from openapi_python_client.parser.properties import (
    AnyProperty, BooleanProperty, DateProperty, DateTimeProperty, FloatProperty, IntProperty, NoneProperty, StringProperty, UuidProperty,
)
from openapi_python_client.parser.properties.protocol import Value

STR_POOL = ("", "1", "1.0", "1e3", " 1 ", "1_0", "١", "nan", "inf", "-0", "abc", "true", "TRUE", "None", "2020-01-02", "2020-01-02T03:04:05Z",
            "12345678-1234-5678-1234-567812345678", "1e999", "0x10", "{12345678-1234-5678-1234-567812345678}", "a'b", "False", "-inf", "2020-13-45")
INT_POOL = (0, 1, -1, 10**20)
FLOAT_POOL = (0.0, 1.5, -2.25, 1e300, float("inf"), float("nan"), 1.0)
_ENV = {"isoparse": isoparse, "UUID": uuid.UUID, "datetime": datetime}


def _pick(pool, i):
    for k in range(len(pool)):
        if i == k:
            return pool[k]
    return pool[0]


def _json_value(t, b, i, f, s):
    if t == 0:
        return None
    if t == 1:
        return True if b else False
    if t == 2:
        return _pick(INT_POOL, i)
    if t == 3:
        return _pick(FLOAT_POOL, f)
    if t == 4:
        return _pick(STR_POOL, s)
    if t == 5:
        return []
    return {}


def _denotes(code: str):
    """Evaluate emitted default source the way the generated module would (names available there)."""
    tree = ast.parse(code, mode="eval")
    for node in ast.walk(tree):
        if isinstance(node, ast.Name) and node.id not in _ENV and node.id not in ("True", "False", "None"):
            raise NameError(node.id)
    return eval(compile(tree, "<default>", "eval"), dict(_ENV))  # noqa: S307


def _check(cls, v, well_typed, same):
    r = cls.convert_value(v)
    if v is None:
        return r is None
    if isinstance(r, PropertyError):
        return not well_typed(v)
    if not isinstance(r, Value):
        return False
    try:
        got = _denotes(r.python_code)
    except Exception:
        return False
    return same(got, v)


def _num(v):
    return float(v) if isinstance(v, str) else v


def int_default(t: int, b: bool, i: int, f: int, s: int) -> bool:
    """
    pre: 0 <= t <= 6 and 0 <= i < 4 and 0 <= f < 7 and 0 <= s < 24
    post: _
    """
    v = _json_value(t, b, i, f, s)
    # documented leniency: numeric strings and integral floats are accepted when they denote an integer
    return _check(IntProperty, v, lambda x: isinstance(x, int) and not isinstance(x, bool), lambda got, x: type(got) is int and got == _num(x))


def float_default(t: int, b: bool, i: int, f: int, s: int) -> bool:
    """
    pre: 0 <= t <= 6 and 0 <= i < 4 and 0 <= f < 7 and 0 <= s < 24
    post: _
    """
    v = _json_value(t, b, i, f, s)
    # NaN / Infinity are not JSON numbers: they are not well-typed number defaults and must be rejected
    return _check(FloatProperty, v, lambda x: isinstance(x, (int, float)) and not isinstance(x, bool) and math.isfinite(x), lambda got, x: type(got) is float and got == _num(x))


def float_default__excl(t: int, b: bool, i: int, f: int, s: int) -> bool:
    """
    pre: 0 <= t <= 6 and 0 <= i < 4 and 0 <= f < 7 and 0 <= s < 24
    post: _
    """
    v = _json_value(t, b, i, f, s)
    try:
        if isinstance(v, (str, float)) and not isinstance(v, bool) and not math.isfinite(float(v)):
            return True  # (kept from before fix bb053aa: non-finite values are handled by float_default itself now)
    except ValueError:
        pass
    return _check(FloatProperty, v, lambda x: isinstance(x, (int, float)) and not isinstance(x, bool) and math.isfinite(x), lambda got, x: type(got) is float and got == _num(x))


def bool_default(t: int, b: bool, i: int, f: int, s: int) -> bool:
    """
    pre: 0 <= t <= 6 and 0 <= i < 4 and 0 <= f < 7 and 0 <= s < 24
    post: _
    """
    v = _json_value(t, b, i, f, s)
    return _check(BooleanProperty, v, lambda x: isinstance(x, bool), lambda got, x: type(got) is bool and got == (x if isinstance(x, bool) else x.lower() == "true"))


def string_default(t: int, b: bool, i: int, f: int, s: int) -> bool:
    """
    pre: 0 <= t <= 6 and 0 <= i < 4 and 0 <= f < 7 and 0 <= s < 24
    post: _
    """
    v = _json_value(t, b, i, f, s)
    if not isinstance(v, str) and v is not None:
        return True  # non-strings are stringified by design (str(value)); not a property-level requirement
    return _check(StringProperty, v, lambda x: True, lambda got, x: type(got) is str and got == x)


def date_default(t: int, b: bool, i: int, f: int, s: int) -> bool:
    """
    pre: 0 <= t <= 6 and 0 <= i < 4 and 0 <= f < 7 and 0 <= s < 24
    post: _
    """
    v = _json_value(t, b, i, f, s)
    return _check(DateProperty, v, lambda x: False, lambda got, x: type(got) is datetime.date and got == isoparse(x).date())


def datetime_default(t: int, b: bool, i: int, f: int, s: int) -> bool:
    """
    pre: 0 <= t <= 6 and 0 <= i < 4 and 0 <= f < 7 and 0 <= s < 24
    post: _
    """
    v = _json_value(t, b, i, f, s)
    return _check(DateTimeProperty, v, lambda x: False, lambda got, x: type(got) is datetime.datetime and got == isoparse(x))


def uuid_default(t: int, b: bool, i: int, f: int, s: int) -> bool:
    """
    pre: 0 <= t <= 6 and 0 <= i < 4 and 0 <= f < 7 and 0 <= s < 24
    post: _
    """
    v = _json_value(t, b, i, f, s)
    return _check(UuidProperty, v, lambda x: False, lambda got, x: type(got) is uuid.UUID and got == uuid.UUID(x))


def none_default(t: int, b: bool, i: int, f: int, s: int) -> bool:
    """
    pre: 0 <= t <= 6 and 0 <= i < 4 and 0 <= f < 7 and 0 <= s < 24
    post: _
    """
    v = _json_value(t, b, i, f, s)
    return _check(NoneProperty, v, lambda x: False, lambda got, x: got is None)


from openapi_python_client.parser.properties import ConstProperty  # noqa: E402
from openapi_python_client.utils import PythonIdentifier  # noqa: E402

_PY = PythonIdentifier("x", "")


def const_default(ct: int, cb: bool, ci: int, cf: int, cs: int, t: int, b: bool, i: int, f: int, s: int) -> bool:
    """
    A default on a const property is accepted only if it *is* the constant (same JSON type, same value); anything else
    — including values Python merely treats as equal, such as true for 1 or 1.0 for 1 — is a diagnostic.
    pre: 1 <= ct <= 4 and 0 <= ci < 4 and 1 <= cf < 3 and 0 <= cs < 24
    pre: 0 <= t <= 6 and 0 <= i < 4 and 0 <= f < 4 and 0 <= s < 24
    post: _
    """
    const = _json_value(ct, cb, ci, cf, cs)
    default = _json_value(t, b, i, f, s)
    r = ConstProperty.build(const=const, default=default, name="x", python_name=_PY, required=True, description=None)
    same = default is not None and type(default) is type(const) and default == const
    if default is None:
        return isinstance(r, ConstProperty) and r.default is None
    if same:
        return isinstance(r, ConstProperty) and r.default is not None and _denotes(r.default.python_code) == const
    return isinstance(r, PropertyError)


# ------------------------------------------------------------------------------------------------ default next to a $ref
from openapi_python_client import schema as oai  # noqa: E402
from openapi_python_client.config import Config, ConfigFile, MetaType  # noqa: E402
from openapi_python_client.parser.properties import Schemas, build_schemas, property_from_data  # noqa: E402
from openapi_python_client.parser.properties.schemas import parse_reference_path  # noqa: E402

_CFG = Config.from_sources(ConfigFile(post_hooks=[]), MetaType.NONE, Path("doc.json"), "utf-8", True, None)
_TARGETS = ("IntE", "StrE", "Flag", "Count", "Ratio", "Day")
_COMPONENTS = {
    "IntE": {"type": "integer", "enum": [0, 1, 2]},
    "StrE": {"type": "string", "enum": ["", "a", "0"]},
    "Flag": {"type": "boolean"},
    "Count": {"type": "integer"},
    "Ratio": {"type": "number"},
    "Day": {"type": "string", "format": "date"},
}
_SCHEMAS = build_schemas(components={k: oai.Schema.model_validate(v) for k, v in _COMPONENTS.items()}, schemas=Schemas(), config=_CFG)
assert not _SCHEMAS.errors


def ref_default(target: int, wrapper: int, t: int, b: bool, i: int, f: int, s: int) -> bool:
    """
    A default written next to a single reference (`allOf|oneOf|anyOf: [$ref], default: V`) is converted exactly as the
    referenced schema itself would convert V — accepted with the same typed value, or rejected — whatever V is,
    including the falsy values 0, false, "" and 0.0.
    pre: 0 <= target < 6 and 0 <= wrapper < 3
    pre: 0 <= t <= 6 and 0 <= i < 4 and 0 <= f < 7 and 0 <= s < 24
    post: _
    """
    name = _pick(_TARGETS, target)
    v = _json_value(t, b, i, f, s)
    data = {_pick(("allOf", "oneOf", "anyOf"), wrapper): [{"$ref": f"#/components/schemas/{name}"}]}
    if v is not None:
        data["default"] = v
    existing = _SCHEMAS.classes_by_reference[parse_reference_path(f"#/components/schemas/{name}")]
    want = existing.convert_value(v)
    prop, _ = property_from_data(name="p", required=False, data=oai.Schema.model_validate(data), schemas=_SCHEMAS, parent_name="Parent", config=_CFG)
    if isinstance(want, PropertyError):
        return isinstance(prop, PropertyError)
    if isinstance(prop, PropertyError):
        return False
    if want is None:
        return prop.default is None
    return prop.default is not None and prop.default.python_code == want.python_code


# ------------------------------------------------------------------------------------------------ default of a union
_UNION_SCHEMAS = (
    {"oneOf": [{"type": "integer"}, {"type": "string"}]},
    {"anyOf": [{"type": "boolean"}, {"type": "integer"}]},
    {"oneOf": [{"type": "string", "format": "date"}, {"type": "integer"}]},
    {"type": ["number", "null"]},
    {"oneOf": [{"type": "string", "enum": ["a", "b"]}, {"type": "integer"}]},
)
_UNIONS = tuple(property_from_data(name="u", required=False, data=oai.Schema.model_validate(u), schemas=Schemas(), parent_name="P", config=_CFG)[0] for u in _UNION_SCHEMAS)


def union_default(u: int, t: int, b: bool, i: int, f: int, s: int) -> bool:
    """
    The default of a union is converted by the first member that accepts it (the same rule decoding follows): the
    emitted source is what that member's own convert_value emits; a value no member accepts is a diagnostic.
    pre: 0 <= u < 5 and 0 <= t <= 6 and 0 <= i < 4 and 0 <= f < 7 and 0 <= s < 24
    post: _
    """
    prop = _pick(_UNIONS, u)
    if isinstance(prop, PropertyError):
        return False
    v = _json_value(t, b, i, f, s)
    want = None
    accepted = False
    for m in prop.inner_properties:
        r = m.convert_value(v)
        if not isinstance(r, PropertyError):
            want, accepted = r, True
            break
    got = prop.convert_value(v)
    if v is None:
        return got is None
    if not accepted:
        ok = isinstance(got, PropertyError)
    else:
        ok = not isinstance(got, PropertyError) and (got is None) == (want is None) and (got is None or got.python_code == want.python_code)
    return ok
