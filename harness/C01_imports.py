"""C01: every sibling import a property asks for names something the target module really defines (real get_imports /
get_lazy_imports against the names the model / enum templates define)."""
import re
from pathlib import Path

from openapi_python_client import schema as oai
from openapi_python_client.config import ClassOverride, Config, ConfigFile, MetaType
from openapi_python_client.parser.errors import PropertyError
from openapi_python_client.parser.properties import Schemas, property_from_data

NAMES = ("Type", "List", "Colour", "my thing", "Format", "Class", "HTTPMethod")
OVERRIDES = (None, {"class_name": "Renamed"}, {"module_name": "custom_mod"}, {"class_name": "Renamed", "module_name": "other_mod"})
KINDS = ({"type": "string", "enum": ["a", "b"]}, {"type": "integer", "enum": [1, 2]}, {"type": "object", "properties": {"x": {"type": "integer"}}})
TEMPLATES = Path(__file__).resolve()
IMPORT = re.compile(r"^from \.\.(?:\.)?models\.([A-Za-z0-9_]+) import ([A-Za-z0-9_]+)$")


def _cfg(literal, name, ovr):
    co = {}
    if ovr is not None:
        from openapi_python_client.utils import ClassName

        co[str(ClassName(name, "field_"))] = ClassOverride(**ovr)
    return Config.from_sources(ConfigFile(post_hooks=[], literal_enums=literal, class_overrides=co or None), MetaType.NONE, Path("d.json"), "utf-8", True, None)


CFGS = {(lit, n, o): _cfg(lit, NAMES[n], OVERRIDES[o]) for lit in (False, True) for n in range(len(NAMES)) for o in range(len(OVERRIDES))}


def _pick(pool, i):
    for k in range(len(pool)):
        if i == k:
            return pool[k]
    return pool[0]


def _idx(n, i):
    for k in range(n):
        if i == k:
            return k
    return 0


def sibling_imports_are_defined(name: int, kind: int, ovr: int, literal: bool, required: bool) -> bool:
    """
    pre: 0 <= name < 7 and 0 <= kind < 3 and 0 <= ovr < 4
    post: _
    """
    lit = True if literal else False
    cfg = CFGS[(lit, _idx(7, name), _idx(4, ovr))]
    data = oai.Schema.model_validate(dict(_pick(KINDS, kind), title=_pick(NAMES, name)))
    prop, schemas = property_from_data(name="p", required=True if required else False, data=data, schemas=Schemas(), parent_name="", config=cfg)
    if isinstance(prop, PropertyError):
        return False
    ci = prop.class_info
    defined = {str(ci.name)}
    if type(prop).__name__ == "LiteralEnumProperty":
        defined.add("check_" + prop.get_class_name_snake_case())  # literal_enum.py.jinja: def check_{{ enum.get_class_name_snake_case() }}
    for imp in sorted(prop.get_imports(prefix="..") | prop.get_lazy_imports(prefix="..")):
        m = IMPORT.match(imp)
        if m is None:
            if "models." in imp:
                return False
            continue
        if m.group(1) != str(ci.module_name) or m.group(2) not in defined:
            return False
    return True
