"""C07 — nothing in the document is dropped silently."""
from __future__ import annotations

from ..common import Ob
from ..e2 import harness_ob
from ..e2 import replay as _replay_e2


def replay(w: dict) -> dict:
    if w.get("spec"):
        return replay_spec_c07(w)
    if w.get("kind"):
        return replay_collision(w)
    return _replay_e2(w)

META = {"level": "model_checking", "assumptions": ["census on arbitrary documents is outside the claim: only the skeleton family and solver-produced colliding pairs are replayed"]}


def _collision_doc(kind: str, a: str, b: str) -> dict:
    from ..skeletons import INT, doc, obj

    if kind == "operation":
        mk = lambda oid: {"operationId": oid, "responses": {"204": {"description": "n"}}}  # noqa: E731
        return doc(None, {"/one": {"get": mk(a)}, "/two": {"get": mk(b)}})
    return doc({a: obj({"x": INT}), b: obj({"y": INT})})


def _silently_collapsed(kind: str, a: str, b: str):
    """Replay through the real generator: two distinct document items, fewer generated artefacts, no diagnostic."""
    from .. import gen

    root = gen.scratch("verif-col-")
    try:
        try:
            errs, pdir = gen.generate(_collision_doc(kind, a, b), root, "sk_col")
        except Exception as e:
            return False, f"generator raised {type(e).__name__}: {e}"
        if errs:
            return False, f"diagnosed: {[e.detail for e in errs][:2]}"
        if kind == "operation":
            files = [p.name for p in (pdir / "api" / "default").glob("*.py") if p.name != "__init__.py"]
        else:
            files = [p.name for p in (pdir / "models").glob("*.py") if p.name != "__init__.py"]
        return len(files) < 2, f"{kind}s {a!r} and {b!r} -> generated files {sorted(files)}, no diagnostic"
    finally:
        gen.cleanup(root)


def obligations(tier: str) -> list[Ob]:
    q = tier == "quick"
    return [
        harness_ob(
            "operation_accounting", "C07_accounting.py", tier, funcs=["accounting_tags", "accounting_presence"], timeout=330 if q else 900, cpus=2,
            encoded=["openapi_python_client.parser.openapi:EndpointCollection.from_data"],
            stubs=["Endpoint.from_data -> arbitrary Endpoint | ParseError per operation (the accounting loop is the subject)"],
            bounds={"operations": 3, "tag lists": 4, "generate_all_tags": "both"},
        ),
        harness_ob(
            "response_accounting", "C07_accounting.py", tier, funcs=["responses_accounted"], timeout=330 if q else 900, cpus=1,
            encoded=["openapi_python_client.parser.openapi:Endpoint._add_responses", "openapi_python_client.parser.responses:response_from_data"],
            bounds={"responses per operation": "<= 4 entries (3 independent keys)", "keys": "200, 404, 503, 4XX, default, 299", "unresolvable response": "at most two positions"},
        ),
        harness_ob(
            "schema_accounting", "C06_builders.py", tier, funcs=["create_schemas_terminates"], timeout=120 if q else 400, cpus=1,
            encoded=["openapi_python_client.parser.properties:_create_schemas"],
            stubs=["update_schemas_with_data -> arbitrary success/failure table"],
            bounds={"components": 3},
        ),
        harness_ob(
            "operation_warnings_accumulate", "C07_accounting.py", tier, funcs=["operation_warnings_accumulate"], timeout=200 if q else 600, cpus=1,
            encoded=["openapi_python_client.parser.openapi:Endpoint.from_data", "openapi_python_client.parser.openapi:Endpoint._add_responses", "openapi_python_client.parser.bodies:body_from_data"],
            bounds={"responses": "200 + {default} + {dangling 404}", "request media types": "none / json / json+xml / xml / json+png+form"},
        ),
        harness_ob(
            "tag_directories", "C16_tags.py", tier, timeout=200 if q else 600, cpus=1,
            encoded=["openapi_python_client:Project._build_api"],
            stubs=["template rendering -> a marker naming the endpoint it was asked to render; file system recorded"],
            bounds={"operations": "5 (two whose module names coincide under disjoint tag sets)", "generate_all_tags": "both"},
        ),
        harness_ob(
            "class_name_twins", "C07_accounting.py", tier, funcs=["class_name_twins_are_never_merged_silently"], timeout=200 if q else 600, cpus=1,
            encoded=["openapi_python_client.parser.properties:build_schemas", "openapi_python_client.parser.properties.model_property:ModelProperty.build"],
            bounds={"name pairs with one class name": 5, "definitions": "3 x 3 (equal by value, different, differing only in description)", "declaration order": "both"},
        ),
        harness_ob(
            "removal_listed", "C08_removal.py", tier, timeout=120 if q else 600, cpus=2,
            encoded=["openapi_python_client.parser.properties:_process_model_errors"],
            bounds={"dependency graph": "3 (4 thorough) nodes"},
        ),
        Ob("replay_census", "vlib.replay_checks:census", {}, timeout_s=900, engine="replay", cpus=1),
        Ob("operation_module_collision", "vlib.props.C07:module_collision", {"kind": "operation", "n": 3, "known_key": "operation_module_collision"}, timeout_s=600, engine="E1"),
        Ob("schema_module_collision", "vlib.props.C07:module_collision", {"kind": "schema", "n": 2, "known_key": "schema_module_collision"}, timeout_s=600, engine="E1"),
    ]


def module_collision(kind: str = "schema", n: int = 2, tier: str = "quick", known: list | None = None, **_: object) -> dict:
    """Two distinct document items whose generated *file names* coincide.  The pair is produced by an E1 collision query
    on the real PythonIdentifier (two encodings, inputs a != b, equal results) — for schemas over class-name shaped
    inputs (the ClassName of a Pascal-cased ASCII alphanumeric name is the name itself; module =
    PythonIdentifier(ClassName(name))), for operations over ASCII operationIds — and then replayed through the real
    generator: fewer files than items and no diagnostic."""
    import z3

    from openapi_python_client import utils

    from ..bstr import core
    from ..bstr.interp import Encoded
    from ..bstr.validate import shadow_inputs
    from ..common import fingerprint, result

    sh = [t for t in shadow_inputs(n, 1) if len(t[0]) == n]
    ea = Encoded(utils.PythonIdentifier, lambda i: ([i[0], "field_"], {}), n, shadow_inputs=sh, exact=True, names=["a"])
    eb = Encoded(utils.PythonIdentifier, lambda i: ([i[0], "field_"], {}), n, shadow_inputs=sh, exact=True, names=["b"])
    for e in (ea, eb):
        ok, _, _ = e.check_caps()
        if not ok:
            return result("inconclusive", "capacity side conditions not discharged")
    a, b = ea.inputs[0], eb.inputs[0]
    if kind == "schema":
        upper_first = lambda v: z3.And(core.pred(lambda c: "A" <= c <= "Z")(v.ch[0]), core.all_char(v, core.pred(lambda c: c.isascii() and c.isalnum())))  # noqa: E731
    else:
        upper_first = lambda v: z3.And(core.pred(lambda c: c.isascii() and c.isalpha())(v.ch[0]), core.all_char(v, core.pred(lambda c: c.isascii() and (c.isalnum() or c in "_-"))))  # noqa: E731
    s = z3.Solver()
    s.set("timeout", 300000)
    s.add(*ea.base, *eb.base, upper_first(a), upper_first(b), z3.Not(core.eq(a, b)), core.eq(core.as_bstr(ea.result), core.as_bstr(eb.result)))
    r = str(s.check())
    funcs = [fingerprint(f) for f in ea.funcs.values()]
    if r == "unsat":
        return result("holds", f"unsat: no two distinct {kind} names of length {n} share a file name", queries=1, functions=funcs, cases=[f"{kind}_module_collision[n={n}]"])
    if r != "sat":
        return result("inconclusive", f"solver answered {r}", queries=1, functions=funcs)
    m = s.model()
    x, y = core.decode(m, a), core.decode(m, b)
    if kind == "schema" and str(utils.ClassName(x, "field_")) == str(utils.ClassName(y, "field_")):
        return result("inconclusive", f"pair {x!r}/{y!r} has equal class names (diagnosed by the duplicate-model check)", queries=1, functions=funcs)
    bad, obs = _silently_collapsed(kind, x, y)
    if bad and known:
        return result("violated", f"sat: fresh witness {[x, y]} -> {obs}", known_hits=[e["id"] for e in known], queries=1, functions=funcs, samples=[{"witness": [x, y], "observed": obs}], cases=[f"{kind}_module_collision[n={n}]"])
    wit = {"what": f"two {kind}s with different names never share one generated file without a diagnostic", "input": [x, y], "observed": obs, "reproduced": bool(bad), "replay_func": "vlib.props.C07:replay_collision", "kind": kind}
    return result("violated", f"sat: witness {[x, y]} -> {obs}", witnesses=[wit], queries=1, functions=funcs)


def replay_collision(w: dict) -> dict:
    bad, obs = _silently_collapsed(w.get("kind", "schema"), *w["input"])
    return {"reproduced": bool(bad), "observed": obs}


def replay_spec_c07(w: dict) -> dict:
    from ..e1 import replay_spec

    return replay_spec("vlib.props.C07", w)
