"""C13 — declared defaults become equal Python defaults, bad defaults are rejected."""
from __future__ import annotations

from ..common import Ob
from ..e2 import harness_ob
from ..e3 import skeleton_obs

META = {"level": "model_checking", "assumptions": ["float()/str(float)/isoparse/UUID are executed concretely on pooled inputs (CrossHair realises them); string defaults are symbolic in the E1 obligation"]}


def replay(w: dict) -> dict:
    if w.get("spec"):
        from ..e1 import replay_spec

        return replay_spec("vlib.props.C05", w)
    if w.get("skeleton"):
        from ..e3 import replay as r3

        return r3(w)
    from ..e2 import replay as r2

    return r2(w)


def obligations(tier: str) -> list[Ob]:
    from ..e1 import spec_obs

    q = tier == "quick"
    obs = [
        harness_ob(
            "convert_value_fidelity", "C13_defaults.py", tier, timeout=150 if q else 600, cpus=8, parallel=10, replay_func="vlib.props.C13:replay",
            encoded=[f"openapi_python_client.parser.properties.{m}:{c}.convert_value" for m, c in (("int", "IntProperty"), ("float", "FloatProperty"), ("boolean", "BooleanProperty"), ("string", "StringProperty"), ("date", "DateProperty"), ("datetime", "DateTimeProperty"), ("uuid", "UuidProperty"), ("none", "NoneProperty"))],
            stubs=["default of symbolic JSON type; string/int/float members from pools (numeric grammar, non-finite values, date/uuid spellings)"],
            bounds={"string pool": 24, "int pool": 4, "float pool": 7},
        ),
        harness_ob(
            "merge_reconverts_default", "C15_merge.py", tier, funcs=["merge_default_reconverted"], timeout=200 if q else 600, cpus=1, replay_func="vlib.props.C13:replay",
            encoded=["openapi_python_client.parser.properties.merge_properties:_merge_common_attributes"],
            bounds={"kinds": "int/float/string pairs, defaults from a pool"},
        ),
    ]
    obs += spec_obs("vlib.props.C05", "string_default", "string_default_literal", {}, "kernel_string_default", list(range(0, (3 if q else 5) + 1)), 99, 400 if q else 3000)
    for o in obs[-((3 if q else 5) + 1):]:
        o.params["replay_func"] = "vlib.props.C13:replay"
    obs += skeleton_obs("C13", "model", ["dflt_"], tier, names=["defaults"], label="default_instances")
    obs += skeleton_obs("C13", "model", ["dflt_"], tier, names=["defaults"], config={"literal_enums": True}, label="default_instances-literal-enums")
    # parameters: leaving an argument out sends exactly the declared default, in every location (request oracle)
    obs += skeleton_obs("C13", "endpoint", ["req_"], tier, names=["params"], label="parameter-defaults")
    return obs
