"""C15 — allOf composition is the conjunction of its members."""
from __future__ import annotations

from ..common import Ob
from ..e2 import harness_ob
from ..e3 import skeleton_obs

META = {"level": "model_checking", "assumptions": ["property kinds: 16 representatives (any, string, int, float, bool, date, date-time, uuid, 3 enums, 2 literal enums, 3 lists); model/union members are outside merge_properties"]}


def replay(w: dict) -> dict:
    if w.get("skeleton"):
        from ..e3 import replay as r3

        return r3(w)
    from ..e2 import replay as r2

    return r2(w)


def obligations(tier: str) -> list[Ob]:
    q = tier == "quick"
    obs = [
        harness_ob(
            "merge_matrix", "C15_merge.py", tier, timeout=200 if q else 900, cpus=16, parallel=16, replay_func="vlib.props.C15:replay",
            encoded=["openapi_python_client.parser.properties.merge_properties:merge_properties", "openapi_python_client.parser.properties.merge_properties:_merge_common_attributes", "openapi_python_client.parser.properties.merge_properties:_merge_with_enum", "openapi_python_client.parser.properties.merge_properties:_merge_numeric", "openapi_python_client.parser.properties.merge_properties:_merge_string_with_format"],
            bounds={"pairs": "all 16 x 16 ordered kind pairs", "flags": "required x required x default-present x default-present (symbolic)", "enum pairs": "6 value-list pairs (coinciding member names with other values, true subsets, disjoint) x both styles x both orders"},
        ),
        harness_ob(
            "parents_any_order", "C12_order.py", tier, funcs=["schema_declaration_order"], timeout=200 if q else 900, cpus=1, replay_func="vlib.props.C15:replay",
            encoded=["openapi_python_client.parser.properties:_process_models"],
            bounds={"declaration orders": "6 of 120 (quick) incl. allOf parent declared after child"},
        ),
    ]
    sk = skeleton_obs("C15", "model", ["rt_", "tri_", "reqd_"], tier, names=["allof"], label="allof_models")
    for o in sk:
        o.params["replay_func"] = "vlib.props.C15:replay"
    return obs + sk
