"""C20: a parameter / response / schema used through a reference behaves like its inline twin (real resolvers)."""
from http import HTTPStatus
from pathlib import Path

from openapi_python_client import schema as oai
from openapi_python_client.config import Config, ConfigFile, MetaType
from openapi_python_client.parser.errors import ParseError, PropertyError
from openapi_python_client.parser.openapi import Endpoint
from openapi_python_client.parser.properties import Parameters, Schemas, build_parameters, build_schemas, property_from_data
from openapi_python_client.parser.responses import response_from_data

CFG = Config.from_sources(ConfigFile(post_hooks=[]), MetaType.NONE, Path("doc.json"), "utf-8", True, None)
LOCS = ("query", "header", "cookie", "path")
KINDS = ({"type": "string"}, {"type": "integer"}, {"type": "string", "enum": ["a", "b"]}, {"type": "array", "items": {"type": "string"}}, {"type": "boolean"})
NAMES = ("plain", "needs-snake", "X-Hdr")


def _pick(pool, i):
    for k in range(len(pool)):
        if i == k:
            return pool[k]
    return pool[0]


def _endpoint():
    return Endpoint(path="/p/{plain}/{needs-snake}/{X-Hdr}", method="get", description=None, name="op", requires_security=False, tags=[])


def _describe(ep):
    if isinstance(ep, ParseError):
        return ("error",)
    out = []
    for loc, p in ep.iter_all_parameters():
        out.append((str(loc), p.name, str(p.python_name), p.required, type(p).__name__, p.get_type_string()))
    return tuple(out)


def parameter_ref_equals_inline(loc: int, kind: int, name: int, required: bool) -> bool:
    """
    pre: 0 <= loc < 4 and 0 <= kind < 5 and 0 <= name < 3
    post: _
    """
    pd = {"name": _pick(NAMES, name), "in": _pick(LOCS, loc), "schema": _pick(KINDS, kind), "required": True if (loc == 3 or required) else False}
    inline = oai.Parameter.model_validate(pd)
    params = build_parameters(components={"TheParam": oai.Parameter.model_validate(pd)}, parameters=Parameters(), config=CFG)
    if params.errors:
        return False
    ref = oai.Reference.model_validate({"$ref": "#/components/parameters/TheParam"})
    op_inline = oai.Operation.model_construct(parameters=[inline], responses={}, tags=None, operationId="op", request_body=None, security=None, summary=None, description=None)
    op_ref = oai.Operation.model_construct(parameters=[ref], responses={}, tags=None, operationId="op", request_body=None, security=None, summary=None, description=None)
    a, sa, _ = Endpoint.add_parameters(endpoint=_endpoint(), data=op_inline, schemas=Schemas(), parameters=params, config=CFG)
    b, sb, _ = Endpoint.add_parameters(endpoint=_endpoint(), data=op_ref, schemas=Schemas(), parameters=params, config=CFG)
    return _describe(a) == _describe(b) and sorted(sa.classes_by_name) == sorted(sb.classes_by_name)


BAD_REFS = ("#/components/parameters/Missing", "https://remote/p.json#/X", "other.yaml#/components/parameters/TheParam", "", "#", "#/components/schemas/TheParam")


def malformed_parameter_ref_is_diagnosed(bad: int) -> bool:
    """
    pre: 0 <= bad < 6
    post: _
    """
    params = build_parameters(components={"TheParam": oai.Parameter.model_validate({"name": "p", "in": "query", "schema": {"type": "string"}})}, parameters=Parameters(), config=CFG)
    ref = oai.Reference.model_construct(ref=_pick(BAD_REFS, bad))
    op = oai.Operation.model_construct(parameters=[ref], responses={}, tags=None, operationId="op", request_body=None, security=None, summary=None, description=None)
    schemas = Schemas()
    res, s2, p2 = Endpoint.add_parameters(endpoint=_endpoint(), data=op, schemas=schemas, parameters=params, config=CFG)
    return isinstance(res, ParseError) and s2 is schemas and p2 is params


RESP_CONTENT = (
    {"application/json": {"schema": {"type": "object", "properties": {"a": {"type": "integer"}}}}},
    {"application/json": {"schema": {"$ref": "#/components/schemas/Shared"}}},
    {"text/plain": {"schema": {"type": "string"}}},
    None,
    {"application/octet-stream": {"schema": {"type": "string", "format": "binary"}}},
)


def response_ref_equals_inline(content: int) -> bool:
    """
    pre: 0 <= content < 5
    post: _
    """
    rd = {"description": "d"}
    c = _pick(RESP_CONTENT, content)
    if c is not None:
        rd["content"] = c
    schemas0 = build_schemas(components={"Shared": oai.Schema.model_validate({"type": "object", "properties": {"s": {"type": "string"}}})}, schemas=Schemas(), config=CFG)
    inline = oai.Response.model_validate(rd)
    table = {"TheResp": oai.Response.model_validate(rd)}
    ref = oai.Reference.model_validate({"$ref": "#/components/responses/TheResp"})
    a, sa = response_from_data(status_code=HTTPStatus(200), data=inline, schemas=schemas0, responses=table, parent_name="op", config=CFG)
    b, sb = response_from_data(status_code=HTTPStatus(200), data=ref, schemas=schemas0, responses=table, parent_name="op", config=CFG)
    if isinstance(a, ParseError) or isinstance(b, ParseError):
        return False
    same = (a.source == b.source and type(a.prop) is type(b.prop) and a.prop.get_type_string() == b.prop.get_type_string() and str(a.prop.python_name) == str(b.prop.python_name))
    return same and sorted(sa.classes_by_name) == sorted(sb.classes_by_name)


SCHEMA_KINDS = (
    {"type": "object", "properties": {"a": {"type": "integer"}}, "required": ["a"]},
    {"type": "string", "enum": ["x", "y"]},
    {"type": "integer", "enum": [1, 2]},
)


def schema_ref_shares_one_class(kind: int, required: bool, wrap: int) -> bool:
    """
    Every reference to one schema yields the very same generated class (one class object), whether written as a bare
    $ref or through a single-element allOf/oneOf/anyOf wrapper.
    pre: 0 <= kind < 3 and 0 <= wrap < 4
    post: _
    """
    schemas = build_schemas(components={"Target": oai.Schema.model_validate(_pick(SCHEMA_KINDS, kind))}, schemas=Schemas(), config=CFG)
    if schemas.errors:
        return False
    r = {"$ref": "#/components/schemas/Target"}
    data_d = _pick((r, {"allOf": [r]}, {"oneOf": [r]}, {"anyOf": [r]}), wrap)
    data = oai.Reference.model_validate(data_d) if wrap == 0 else oai.Schema.model_validate(data_d)
    required = True if required else False
    bare, s1 = property_from_data(name="p", required=required, data=oai.Reference.model_validate(r), schemas=schemas, parent_name="Parent", config=CFG)
    other, s2 = property_from_data(name="p", required=required, data=data, schemas=s1, parent_name="Parent", config=CFG)
    if isinstance(bare, PropertyError) or isinstance(other, PropertyError):
        return False
    target = schemas.classes_by_reference["/components/schemas/Target"]
    return (
        bare.class_info is target.class_info and other.class_info is target.class_info
        and bare.get_type_string() == other.get_type_string() and bare.required == other.required == required
        and sorted(s2.classes_by_name) == sorted(schemas.classes_by_name)
    )
