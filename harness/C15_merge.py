"""C15: allOf merging picks the narrowest compatible type regardless of member order, or reports an error (real
merge_properties over all ordered pairs of property kinds, symbolic required flags and default presence)."""
from pathlib import Path

from attrs import evolve

from openapi_python_client import schema as oai
from openapi_python_client.config import Config, ConfigFile, MetaType
from openapi_python_client.parser.errors import PropertyError
from openapi_python_client.parser.properties import Schemas, property_from_data
from openapi_python_client.parser.properties.merge_properties import merge_properties

CFG = Config.from_sources(ConfigFile(post_hooks=[]), MetaType.NONE, Path("doc.json"), "utf-8", True, None)
CFG_LIT = Config.from_sources(ConfigFile(post_hooks=[], literal_enums=True), MetaType.NONE, Path("doc.json"), "utf-8", True, None)

# (kind name, schema, default for that kind, config)
KINDS = (
    ("any", {}, "dflt", CFG),
    ("string", {"type": "string"}, "a", CFG),
    ("int", {"type": "integer"}, 1, CFG),
    ("float", {"type": "number"}, 1, CFG),
    ("bool", {"type": "boolean"}, True, CFG),
    ("date", {"type": "string", "format": "date"}, "2020-01-02", CFG),
    ("datetime", {"type": "string", "format": "date-time"}, "2020-01-02T03:04:05Z", CFG),
    ("uuid", {"type": "string", "format": "uuid"}, "12345678-1234-5678-1234-567812345678", CFG),
    ("enum_ab", {"type": "string", "enum": ["a", "b"]}, "a", CFG),
    ("enum_a", {"type": "string", "enum": ["a"]}, "a", CFG),
    ("enum_12", {"type": "integer", "enum": [1, 2]}, 1, CFG),
    ("lit_ab", {"type": "string", "enum": ["a", "b"]}, "a", CFG_LIT),
    ("lit_a", {"type": "string", "enum": ["a"]}, "a", CFG_LIT),
    ("list_str", {"type": "array", "items": {"type": "string"}}, None, CFG),
    ("list_int", {"type": "array", "items": {"type": "integer"}}, None, CFG),
    ("list_float", {"type": "array", "items": {"type": "number"}}, None, CFG),
)
N = len(KINDS)


def _build(i, required, with_default, tag):
    name, schema, dflt, cfg = KINDS[i]
    d = dict(schema)
    if with_default and dflt is not None:
        d["default"] = dflt
    prop, _ = property_from_data(name="shared", required=required, data=oai.Schema.model_validate(d), schemas=Schemas(), parent_name=f"P{tag}{i}", config=cfg)
    assert not isinstance(prop, PropertyError), (name, prop)
    return prop


# all property objects are built once, outside symbolic execution
PROPS = {(i, r, d): _build(i, r, d, "x") for i in range(N) for r in (False, True) for d in (False, True)}
NARROW = {
    ("int", "float"): "int", ("string", "date"): "date", ("string", "datetime"): "datetime",
    ("string", "enum_ab"): "enum_ab", ("string", "enum_a"): "enum_a", ("int", "enum_12"): "enum_12",
    ("enum_ab", "enum_a"): "enum_a", ("string", "lit_ab"): "lit_ab", ("string", "lit_a"): "lit_a", ("lit_ab", "lit_a"): "lit_a",
    ("list_int", "list_float"): "list_int",
}


def _expected(a, b):
    if a == b:
        return a
    if a == "any":
        return b
    if b == "any":
        return a
    return NARROW.get((a, b)) or NARROW.get((b, a))


def _kind_of(prop):
    for i in range(N):
        ref = PROPS[(i, True, False)]
        if type(prop) is type(ref) and prop.get_type_string(no_optional=True) == ref.get_type_string(no_optional=True):
            vals = getattr(prop, "values", None)
            if vals is not None and vals != getattr(ref, "values", None):
                continue
            return KINDS[i][0]
    return None


def _pick_prop(i, r, d):
    for k in range(N):
        if i == k:
            return PROPS[(k, True if r else False, True if d else False)]
    return PROPS[(0, True, False)]


def _row(i, j, r1, r2, d1, d2) -> bool:
    a, b = _pick_prop(i, r1, d1), _pick_prop(j, r2, d2)
    ka = KINDS[i][0]
    kb = "any"
    for k in range(N):
        if j == k:
            kb = KINDS[k][0]
    # merge_properties mutates list properties in place: work on copies
    ab = merge_properties(evolve(a), evolve(b))
    ba = merge_properties(evolve(b), evolve(a))
    exp = _expected(ka, kb)
    if exp is None:
        return isinstance(ab, PropertyError) and isinstance(ba, PropertyError)
    want_required = True if (r1 or r2) else False
    for m in (ab, ba):
        if isinstance(m, PropertyError):
            # the only legitimate error for compatible kinds: a declared default that the narrowest type cannot hold
            if not (d1 or d2):
                return False
            continue
        if _kind_of(m) != exp or m.required != want_required:
            return False
    return True


def _mk(i):
    def cond(j: int, r1: bool, r2: bool, d1: bool, d2: bool) -> bool:
        return _row(i, j, r1, r2, d1, d2)

    return cond


def merge_row_any(j: int, r1: bool, r2: bool, d1: bool, d2: bool) -> bool:
    """
    pre: 0 <= j < 16
    post: _
    """
    return _row(0, j, r1, r2, d1, d2)


def merge_row_string(j: int, r1: bool, r2: bool, d1: bool, d2: bool) -> bool:
    """
    pre: 0 <= j < 16
    post: _
    """
    return _row(1, j, r1, r2, d1, d2)


def merge_row_int(j: int, r1: bool, r2: bool, d1: bool, d2: bool) -> bool:
    """
    pre: 0 <= j < 16
    post: _
    """
    return _row(2, j, r1, r2, d1, d2)


def merge_row_float(j: int, r1: bool, r2: bool, d1: bool, d2: bool) -> bool:
    """
    pre: 0 <= j < 16
    post: _
    """
    return _row(3, j, r1, r2, d1, d2)


def merge_row_bool(j: int, r1: bool, r2: bool, d1: bool, d2: bool) -> bool:
    """
    pre: 0 <= j < 16
    post: _
    """
    return _row(4, j, r1, r2, d1, d2)


def merge_row_date(j: int, r1: bool, r2: bool, d1: bool, d2: bool) -> bool:
    """
    pre: 0 <= j < 16
    post: _
    """
    return _row(5, j, r1, r2, d1, d2)


def merge_row_datetime(j: int, r1: bool, r2: bool, d1: bool, d2: bool) -> bool:
    """
    pre: 0 <= j < 16
    post: _
    """
    return _row(6, j, r1, r2, d1, d2)


def merge_row_uuid(j: int, r1: bool, r2: bool, d1: bool, d2: bool) -> bool:
    """
    pre: 0 <= j < 16
    post: _
    """
    return _row(7, j, r1, r2, d1, d2)


def merge_row_enum_ab(j: int, r1: bool, r2: bool, d1: bool, d2: bool) -> bool:
    """
    pre: 0 <= j < 16
    post: _
    """
    return _row(8, j, r1, r2, d1, d2)


def merge_row_enum_a(j: int, r1: bool, r2: bool, d1: bool, d2: bool) -> bool:
    """
    pre: 0 <= j < 16
    post: _
    """
    return _row(9, j, r1, r2, d1, d2)


def merge_row_enum_12(j: int, r1: bool, r2: bool, d1: bool, d2: bool) -> bool:
    """
    pre: 0 <= j < 16
    post: _
    """
    return _row(10, j, r1, r2, d1, d2)


def merge_row_lit_ab(j: int, r1: bool, r2: bool, d1: bool, d2: bool) -> bool:
    """
    pre: 0 <= j < 16
    post: _
    """
    return _row(11, j, r1, r2, d1, d2)


def merge_row_lit_a(j: int, r1: bool, r2: bool, d1: bool, d2: bool) -> bool:
    """
    pre: 0 <= j < 16
    post: _
    """
    return _row(12, j, r1, r2, d1, d2)


def merge_row_list_str(j: int, r1: bool, r2: bool, d1: bool, d2: bool) -> bool:
    """
    pre: 0 <= j < 16
    post: _
    """
    return _row(13, j, r1, r2, d1, d2)


def merge_row_list_int(j: int, r1: bool, r2: bool, d1: bool, d2: bool) -> bool:
    """
    pre: 0 <= j < 16
    post: _
    """
    return _row(14, j, r1, r2, d1, d2)


def merge_row_list_float(j: int, r1: bool, r2: bool, d1: bool, d2: bool) -> bool:
    """
    pre: 0 <= j < 16
    post: _
    """
    return _row(15, j, r1, r2, d1, d2)


DEFAULT_KINDS = ((2, 3), (3, 2), (1, 5), (5, 1), (1, 8), (8, 1), (2, 10), (2, 2), (1, 1), (8, 9), (9, 8), (11, 12), (12, 11), (8, 8), (13, 13))


def merge_default_reconverted(p: int, d1: bool, d2: bool) -> bool:
    """
    The later member's default wins and is re-converted against the merged (narrowest) type; a default the merged type
    cannot hold is an error, never a silently wrong literal.
    pre: 0 <= p < 15
    post: _
    """
    i, j = DEFAULT_KINDS[0]
    for k in range(len(DEFAULT_KINDS)):
        if p == k:
            i, j = DEFAULT_KINDS[k]
    a, b = PROPS[(i, False, True if d1 else False)], PROPS[(j, False, True if d2 else False)]
    m = merge_properties(evolve(a), evolve(b))
    if isinstance(m, PropertyError):
        return True
    src = b if (d2 and b.default is not None) else (a if (d1 and a.default is not None) else None)
    if src is None:
        return m.default is None
    again = m.convert_value(src.default.raw_value)
    if isinstance(again, PropertyError):
        return False
    return m.default is not None and m.default.python_code == again.python_code


def _snapshot(p):
    return (type(p).__name__, p.get_type_string(), p.get_type_string(json=True), p.required, None if p.default is None else p.default.python_code, p.description)


def merge_leaves_its_arguments_alone(i: int, j: int, r1: bool, r2: bool) -> bool:
    """
    The properties handed to merge_properties belong to the models they came from (the allOf parent keeps using them):
    merging must not change them, whatever the pair of kinds and whether or not the merge succeeds.
    pre: 0 <= i < 16 and 0 <= j < 16
    post: _
    """
    a, b = evolve(_pick_prop(i, r1, False)), evolve(_pick_prop(j, r2, False))
    sa, sb = _snapshot(a), _snapshot(b)
    merge_properties(a, b)
    return _snapshot(a) == sa and _snapshot(b) == sb


# ------------------------------------------------------------------------------------------------ enum pairs: values decide, not member names
ENUM_PAIRS = (
    (["a", "b"], ["A", "B", "C"], None),  # member names A, B coincide - the values do not
    (["1", "2"], ["3", "4", "5"], None),  # positional member names VALUE_0, VALUE_1 coincide
    (["a", "b"], ["a", "b", "c"], 0),  # a true subset: the smaller enum wins
    (["1", "2"], ["2", "1", "3"], 0),
    (["x"], ["y"], None),
    (["a b", "c"], ["a-b", "c"], None),  # names coincide after sanitising only
)


def _enum_prop(values, cfg, tag):
    prop, _ = property_from_data(name="shared", required=False, data=oai.Schema.model_validate({"type": "string", "enum": list(values)}), schemas=Schemas(), parent_name=f"E{tag}", config=cfg)
    return prop


_EP = {}
for _k, (_v1, _v2, _w) in enumerate(ENUM_PAIRS):
    for _lit, _cfg in ((False, CFG), (True, CFG_LIT)):
        _EP[(_k, _lit)] = (_enum_prop(_v1, _cfg, f"a{_k}{_lit}"), _enum_prop(_v2, _cfg, f"b{_k}{_lit}"))


def _listed(prop):
    vals = prop.values
    return sorted(vals.values()) if isinstance(vals, dict) else sorted(vals)


def enum_pairs_compare_values(p: int, literal: bool, swap: bool) -> bool:
    """
    allOf of two enums: the result lists exactly the values of the smaller one when it is a subset *by value* of the
    other, in either order; otherwise it is an error - also when the derived member names coincide while the values
    differ ('a','b' against 'A','B','C'; '1','2' against '3','4','5').
    pre: 0 <= p < 6
    post: _
    """
    pair, want = None, None
    for k in range(len(ENUM_PAIRS)):
        if p == k:
            pair, want = _EP[(k, True if literal else False)], ENUM_PAIRS[k][2]
    a, b = pair
    if isinstance(a, PropertyError) or isinstance(b, PropertyError):
        return True  # the pair itself is not buildable under this style (recorded enum findings): nothing to merge
    m = merge_properties(evolve(b), evolve(a)) if swap else merge_properties(evolve(a), evolve(b))
    if want is None:
        return isinstance(m, PropertyError)
    if isinstance(m, PropertyError):
        # a diagnostic is always admissible (the statement forbids only a silent, arbitrary choice); it is what the
        # class style answers when the subset lists its values in another order (positional member names differ)
        return p == 3
    return _listed(m) == _listed(a)
