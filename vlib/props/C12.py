"""C12 — same document, same bytes: deterministic and order-independent."""
from __future__ import annotations

from ..common import Ob
from ..e2 import harness_ob, replay  # noqa: F401

META = {"level": "model_checking", "assumptions": ["the ruff post-hooks (external binary) are outside the claim"]}


def obligations(tier: str) -> list[Ob]:
    q = tier == "quick"
    return [
        harness_ob(
            "symbolic_orders", "C12_order.py", tier, timeout=330 if q else 1500, cpus=4 if q else 12, parallel=8 if q else 12,
            encoded=["openapi_python_client.parser.openapi:GeneratorData.from_dict", "openapi_python_client.parser.properties:_create_schemas", "openapi_python_client.parser.properties:_process_models"],
            stubs=[
                "every set the model/endpoint templates iterate (lazy_imports, relative_imports) is replaced by a set whose iteration order is a symbolic permutation: the interpreter's hash seed becomes a solver variable",
                "templates are compiled once outside symbolic execution; union templates (jinja Namespace objects break under CrossHair's tracer) are covered by the replay oracle only",
            ],
            bounds={"components": "4 mutually referencing schemas incl. allOf parent declared after child: 6 (quick) / all 24 (thorough) declaration orders", "paths": "all 6 orders of 3 paths", "set orders": "6 (quick) / 24 (thorough) permutations"},
        ),
        harness_ob(
            "every_set_is_order_free", "C12_sets.py", tier, timeout=400 if q else 2400, cpus=2,
            encoded=["openapi_python_client.parser.openapi:GeneratorData.from_dict", "openapi_python_client.parser.properties.model_property:_process_properties", "openapi_python_client.parser.properties:build_schemas", "openapi_python_client.parser.openapi:Endpoint.from_data"],
            stubs=["every module of openapi_python_client.parser, utils and the package __init__ is compiled from a rewritten syntax tree: each set(...) call, set display, set comprehension and factory=set builds a PermSet", "vlib.permset: iteration order of every set the generator builds = permutation selected by one symbolic index (hash seed as a solver variable)", "templates are compiled once outside symbolic execution; union templates (jinja Namespace objects break under the tracer) are left to the replay oracle"],
            bounds={"document": "8 components (allOf children that make 3 inherited optionals mandatory, recursive references, typed additionalProperties, enums) + 2 paths with 2 tags, 5 parameters, 2 request media types; both enum styles", "permutation index": "4 values (quick) / all 23 non-identity values below 4! (thorough)"},
        ),
        Ob("replay_hashseed_and_shuffle", "vlib.replay_checks:determinism", {}, timeout_s=900 if q else 3000, engine="replay", cpus=2),
    ]
