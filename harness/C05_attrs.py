"""C05 (A-attr contracts): every text attribute the templates interpolate equals the escaping kernel applied to the
document text, at every constructor route (real constructors; the document text is a symbolic string).

Identifier derivation (regex-heavy, decided separately by E1) is replaced by a stub that returns a fixed identifier:
the subject here is only *that the escape is applied on this route*."""
from pathlib import Path
from unittest import mock

from openapi_python_client import Project, utils
from openapi_python_client import schema as oai
from openapi_python_client.config import Config, ConfigFile, MetaType
from openapi_python_client.parser.errors import ParseError, PropertyError
from openapi_python_client.parser.openapi import Endpoint, GeneratorData
from openapi_python_client.parser.properties import EnumProperty, Parameters, Schemas, build_schemas, property_from_data
from openapi_python_client.parser.properties.schemas import Class

CFG = Config.from_sources(ConfigFile(post_hooks=[]), MetaType.NONE, Path("d.json"), "utf-8", True, Path("/nonexistent-verif/out"))
BS = chr(92)


class _PI(str):
    def __new__(cls, value="", prefix="", skip_snake_case=False):
        return str.__new__(cls, "stub_identifier")

    def __deepcopy__(self, _):
        return self


def _esc(s: str) -> str:
    return s.replace('"', BS + '"')


BASE = build_schemas(
    components={"AnEnum": oai.Schema.model_validate({"type": "string", "enum": ["a", "b"]}), "AModel": oai.Schema.model_validate({"type": "object", "properties": {"x": {"type": "integer"}}})},
    schemas=Schemas(), config=CFG,
)
ROUTES = (
    {"type": "string"},
    {"type": "integer"},
    {"type": "array", "items": {"type": "string"}},
    {"$ref": "#/components/schemas/AnEnum"},
    {"$ref": "#/components/schemas/AModel"},
    {"allOf": [{"$ref": "#/components/schemas/AModel"}]},
    {"oneOf": [{"type": "string"}, {"type": "integer"}]},
    {"type": "string", "format": "date"},
    {"const": "c"},
    {},
)
DATA = tuple(oai.Reference.model_validate(r) if "$ref" in r else oai.Schema.model_validate(r) for r in ROUTES)


def _pick(pool, i):
    for k in range(len(pool)):
        if i == k:
            return pool[k]
    return pool[0]


def property_name_is_escaped(name: str, route: int, required: bool) -> bool:
    """
    pre: len(name) <= 2 and route in (0, 3, 4, 5)
    post: _
    """
    return _name_route(name, route, True)


def property_name_len3_thorough(name: str, route: int) -> bool:
    """
    pre: len(name) <= 3 and route in (0, 3, 4, 5)
    post: _
    """
    return _name_route(name, route, True)


def _name_route(name, route, required) -> bool:
    data = _pick(DATA, route)
    with mock.patch.object(utils, "PythonIdentifier", _PI):
        prop, _ = property_from_data(name=name, required=True if required else False, data=data, schemas=BASE, parent_name="Parent", config=CFG)
    if isinstance(prop, PropertyError):
        return False
    return prop.name == _esc(name)


def operation_text_is_escaped(summary: str, description: str) -> bool:
    """
    pre: len(summary) <= 3 and len(description) <= 3
    post: _
    """
    op = oai.Operation.model_construct(summary=summary, description=description, operationId="op", parameters=None, responses={}, request_body=None, security=None, tags=None)
    ep, _, _ = Endpoint.from_data(data=op, path="/p", method="get", tags=[], schemas=Schemas(), parameters=Parameters(), request_bodies={}, responses={}, config=CFG)
    if isinstance(ep, ParseError):
        return False
    return ep.summary == _esc(summary) and ep.description == _esc(description)


def enum_value_is_escaped(value: str) -> bool:
    """
    pre: len(value) <= 2
    post: _
    """
    with mock.patch.object(utils, "snake_case", lambda s: "KEY"):
        out = EnumProperty.values_from_list([value], Class(name="C", module_name="c"))
    return list(out.values()) == [_esc(value)]


def package_description_is_escaped(title: str) -> bool:
    """
    pre: len(title) <= 3
    post: _
    """
    data = GeneratorData(title=title, description=None, version="1", models=iter(()), errors=[], endpoint_collections_by_tag={}, enums=iter(()))
    with mock.patch.object(utils, "kebab_case", lambda s: "stub"):
        proj = Project(openapi=data, config=CFG)
    return proj.package_description == _esc("A client library for accessing " + title)


def package_version_is_escaped(version: str) -> bool:
    """
    pre: len(version) <= 3
    post: _
    """
    data = GeneratorData(title="t", description=None, version=version, models=iter(()), errors=[], endpoint_collections_by_tag={}, enums=iter(()))
    proj = Project(openapi=data, config=CFG)
    return proj.version == _esc(version)
