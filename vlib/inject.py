"""C05 replay machinery: slot enumeration, payload injection through the real generator, canary/context audit.

A *slot* is one string-valued position of the canary document.  Each slot carries a unique lower-case alphanumeric
canary `zq<n>zq`; a payload is appended to the canary text of one slot, the real generator runs, and then

  1. every generated .py must compile and pyproject.toml / setup.py must parse,
  2. CPython's own tokenizer says in which token every canary occurrence sits: it may only be a STRING, a COMMENT, an
     f-string text part, or part of a NAME (sanitised identifier) — never an operator/number/expression position; the
     payload's dangerous core must never show up as code (an `ast.Name`/`ast.Call`/`ast.Attribute` it would introduce),
  3. for run-time-meaningful slots the exact text must be recoverable as the value of some string constant of the AST.
"""
from __future__ import annotations

import ast
import copy
import io
import tokenize
from pathlib import Path
from typing import Any

from . import gen

MARK = "zq"


def canary_doc() -> tuple[dict, dict[str, dict]]:
    """The canary document and its slot table {slot_id: {path: [...], kind, runtime}}."""
    n = [0]
    slots: dict[str, dict] = {}

    def c(kind: str, runtime: bool = False, ident: bool = False) -> str:
        n[0] += 1
        sid = f"{MARK}{n[0]}{MARK}"
        slots[sid] = {"kind": kind, "runtime": runtime, "ident": ident}
        return sid

    model_props = {
        c("property name", True): {"type": "string", "description": c("property description"), "default": c("string default", True), "example": c("example")},
        c("property name (enum)", True): {"type": "string", "enum": [c("enum value", True), c("enum value", True)], "description": c("enum description")},
        c("property name (const)", True): {"const": c("const value", True), "description": c("const description")},
        c("property name (int)", True): {"type": "integer", "description": c("int description"), "default": 3},
        c("property name (date)", True): {"type": "string", "format": "date", "description": c("date description")},
        c("property name (list)", True): {"type": "array", "items": {"type": "string"}, "description": c("list description")},
        c("property name (bare ref)", True): {"$ref": "#/components/schemas/CanaryEnum"},
        c("property name (allOf ref)", True): {"allOf": [{"$ref": "#/components/schemas/CanaryLeaf"}], "description": c("wrapper description")},
    }
    required = [k for i, k in enumerate(model_props) if i in (0, 2)]
    # colliding siblings: `<slot>` next to `<slot>~` (the payload with everything but letters, digits and `_` removed):
    # both sanitise to one Python name, which sends the generator into its raw-name fallback
    # (`PythonIdentifier(..., skip_snake_case=True)`), or into a diagnostic
    cs, cq = c("colliding property name"), c("colliding query parameter name")
    doc = {
        "openapi": "3.1.0",
        "info": {"title": c("info title"), "version": c("info version"), "description": c("info description")},
        "paths": {
            "/" + c("path segment", True): {
                "get": {
                    "operationId": c("operationId", ident=True),
                    "summary": c("summary"),
                    "description": c("operation description"),
                    "tags": [c("tag", ident=True)],
                    "parameters": [
                        {"name": c("query parameter name", True), "in": "query", "description": c("parameter description"), "schema": {"type": "string", "default": c("parameter default", True), "description": c("parameter schema description")}},
                        {"name": c("header parameter name", True), "in": "header", "schema": {"type": "string"}},
                        {"name": c("cookie parameter name", True), "in": "cookie", "schema": {"type": "string"}},
                        {"name": c("enum query parameter name", True), "in": "query", "schema": {"type": "string", "enum": [c("parameter enum value", True)]}},
                        {"name": c("ref query parameter name", True), "in": "query", "schema": {"$ref": "#/components/schemas/CanaryEnum"}},
                        {"name": c("ref header parameter name", True), "in": "header", "schema": {"$ref": "#/components/schemas/CanaryEnum"}},
                    ],
                    "requestBody": {"description": c("body description"), "content": {"application/json": {"schema": {"$ref": "#/components/schemas/CanaryModel"}}}},
                    "responses": {
                        "200": {"description": c("response description"), "content": {"application/json": {"schema": {"$ref": "#/components/schemas/CanaryModel"}}}},
                        "404": {"description": c("response description"), "content": {"application/json": {"schema": {"type": "object", "title": c("inline title"), "properties": {c("inline property name", True): {"type": "string"}}}}}},
                    },
                }
            },
            "/collide": {
                "get": {
                    "operationId": "collideOp",
                    "parameters": [{"name": cq, "in": "query", "schema": {"type": "string"}}, {"name": cq + "~", "in": "query", "schema": {"type": "string"}}],
                    "responses": {"200": {"description": "d", "content": {"application/json": {"schema": {"$ref": "#/components/schemas/CanaryCollide"}}}}},
                }
            },
        },
        "components": {
            "schemas": {
                "CanaryModel": {"type": "object", "title": c("model title"), "description": c("model description"), "example": c("model example"), "required": required, "properties": model_props},
                "CanaryEnum": {"type": "string", "enum": [c("component enum value", True), c("component enum value", True)], "description": c("component enum description")},
                "CanaryLit": {"type": "integer", "enum": [1, 2], "description": c("int enum description")},
                "CanaryCollide": {"type": "object", "properties": {cs: {"type": "string"}, cs + "~": {"type": "string"}}},
                "CanaryLeaf": {"type": "object", "properties": {c("leaf property name", True): {"type": "integer"}}},
            }
        },
    }
    return doc, slots


_re_sib = __import__("re").compile("(" + MARK + r"\d+" + MARK + ")~")


def inject(doc: dict, sid: str, text: str, text_plain: str | None = None) -> dict:
    """Replace the canary `sid` by `text` everywhere it occurs (keys and values; `required` lists follow the keys);
    the derived marker `sid~` is replaced by `text_plain` (the same text reduced to letters, digits and `_`)."""
    plain = text if text_plain is None else text_plain

    def sub(x: str) -> str:
        x = x.replace(sid + "~", "\x01").replace(sid, text).replace("\x01", plain)
        # the sibling markers of the *other* slots become ordinary distinct names (no collision, no diagnostic)
        return _re_sib.sub(r"\1sib", x)

    def walk(node: Any) -> Any:
        if isinstance(node, dict):
            return {(sub(k) if isinstance(k, str) else k): walk(v) for k, v in node.items()}
        if isinstance(node, list):
            return [walk(v) for v in node]
        if isinstance(node, str):
            return sub(node)
        return node

    return walk(copy.deepcopy(doc))


# payloads outside the recorded known-finding classes (no backslash, no line break, no NUL)
PAYLOADS = [
    '"',
    "'",
    '"""',
    "'''",
    '" + __import__("os").system("true") + "',
    "' + __import__('os').system('true') + '",
    '"""; import os; """',
    "{__import__('os').getcwd()}",
    "{0}{x}{",
    "}{",
    "#",
    "%s %(a)s %",
    "$(id) `id` ${x}",
    "); import os #",
    "'); import os; ('",
    '"); import os; ("',
    "é ß 漢 ²",
    "r\"x\" b'y' f\"{1}\"",
    "' \" ''' \"\"\" {} # %",
    # backslash combinations: excused (class 'backslash') in names and values, where the escaping kernel does not handle
    # them; descriptive text goes through safe_docstring / the TOML escape, which must cope
    'a\\b"""c',
    '"""\\',
    "\\",
]
DANGEROUS_NAMES = {"__import__", "os", "system", "getcwd"}


def _tokens_context(src: str) -> list[tuple[int, int, int, int, str]]:
    out = []
    for t in tokenize.generate_tokens(io.StringIO(src).readline):
        out.append((t.start[0], t.start[1], t.end[0], t.end[1], tokenize.tok_name[t.type]))
    return out


def audit_python(path: Path, canaries: list[str], payload: str) -> list[str]:
    src = path.read_text(encoding="utf-8")
    problems = []
    try:
        tree = ast.parse(src)
    except SyntaxError as e:
        return [f"{path.name}: SyntaxError: {e.msg} (line {e.lineno})"]
    # (2) no dangerous name from the payload occurs as code
    if payload:
        for node in ast.walk(tree):
            if isinstance(node, ast.Name) and node.id in DANGEROUS_NAMES and node.id in payload:
                problems.append(f"{path.name}: payload text became code: name `{node.id}` at line {node.lineno}")
            if isinstance(node, ast.Import) and any(a.name == "os" for a in node.names) and "import os" in payload:
                problems.append(f"{path.name}: payload text became code: `import os` at line {node.lineno}")
    # canary token contexts
    lines = src.splitlines(keepends=True)
    offs = [0]
    for ln in lines:
        offs.append(offs[-1] + len(ln))
    try:
        toks = _tokens_context(src)
    except (tokenize.TokenError, IndentationError) as e:
        return problems + [f"{path.name}: tokenizer error {e}"]
    spans = [(offs[a - 1] + b, offs[c2 - 1] + d, name) for a, b, c2, d, name in toks]
    for can in canaries:
        start = 0
        while True:
            i = src.find(can, start)
            if i < 0:
                break
            start = i + 1
            ctx = next((name for a, b, name in spans if a <= i and i + len(can) <= b and name in ("STRING", "COMMENT", "NAME", "FSTRING_MIDDLE")), None)
            if ctx is None:
                problems.append(f"{path.name}: canary {can} occurs outside a string / comment / identifier (offset {i})")
    return problems


def string_constants(pkg: Path) -> set[str]:
    vals: set[str] = set()
    for p in pkg.rglob("*.py"):
        try:
            tree = ast.parse(p.read_text(encoding="utf-8"))
        except SyntaxError:
            continue
        for node in ast.walk(tree):
            if isinstance(node, ast.Constant) and isinstance(node.value, str):
                vals.add(node.value)
    return vals


def run_injection(sid: str, payload: str, meta: str = "none", base: tuple | None = None) -> tuple[list[str], dict]:
    """Inject one payload at one slot, generate, audit.  Returns (problems, info)."""
    import tomllib

    doc, slots = base or canary_doc()
    text = sid + payload + MARK
    bad = inject(doc, sid, text, sid + "".join(ch for ch in payload if ch.isalnum() or ch == "_") + MARK)
    root = gen.scratch("verif-inj-")
    info: dict = {"slot": sid, "kind": slots[sid]["kind"], "payload": payload, "meta": meta}
    try:
        try:
            errs, pdir = gen.generate(bad, root, "sk_inj", meta=meta)
        except Exception as e:  # the generator itself crashed: that is C06's subject, report it here as well
            return [f"generator raised {type(e).__name__}: {str(e)[:200]}"], info
        info["diagnostics"] = [f"{e.header} {e.detail}"[:160] for e in errs][:4]
        if not pdir.exists():
            return [], info  # rejected with a diagnostic: allowed
        problems: list[str] = []
        cans = list(slots)
        for p in sorted(pdir.rglob("*.py")):
            problems += audit_python(p, cans, payload)
        if meta != "none":
            proj = root / "sk_inj"
            try:
                data = tomllib.loads((proj / "pyproject.toml").read_text(encoding="utf-8"))
                info["toml_ok"] = bool(data)
            except Exception as e:
                problems.append(f"pyproject.toml: {type(e).__name__}: {str(e)[:120]}")
            if (proj / "setup.py").exists():
                problems += audit_python(proj / "setup.py", cans, payload)
        if slots[sid]["runtime"] and not problems:
            consts = string_constants(pdir)
            diagnosed = any(sid in d or "zq" in d for d in info["diagnostics"])
            variants = {text, "/" + text}
            if not (variants & consts) and not any(text in c for c in consts) and not diagnosed:
                problems.append(f"run-time text of slot {sid} ({slots[sid]['kind']}) is not reproduced character for character in any string constant and no diagnostic was issued")
        return problems, info
    finally:
        gen.cleanup(root)


# ------------------------------------------------------------------------------------------------ known-finding classes
import re as _re

_W = _re.compile(r"\w")
DOC_KINDS = {"property description", "example", "enum description", "const description", "int description", "date description", "list description", "parameter schema description", "model description", "model example", "component enum description", "wrapper description", "int enum description"}


def _descriptive(kind: str) -> bool:
    """Slots whose text only ever lands in a docstring / comment-like position (measured: a backslash is harmless there)."""
    if kind.startswith("info"):  # title / version / description also go into pyproject.toml and setup.py (C05-K5)
        return False
    return kind in DOC_KINDS or any(w in kind for w in ("description", "example", "title", "summary")) or kind in ("tag", "operationId")


def _has_w_not_xid(p: str) -> bool:
    return any(_W.match(c) and not ("a" + c).isidentifier() for c in p)


# class name -> predicate(slot kind, payload)
CLASSES = {
    "docstring_triple_quote": lambda k, p: k in DOC_KINDS and '"""' in p,
    "const_value_quote_or_brace": lambda k, p: k == "const value" and any(c in p for c in "'\"{}"),
    "const_name_brace": lambda k, p: k == "property name (const)" and any(c in p for c in "{}"),
    "path_dquote": lambda k, p: k == "path segment" and '"' in p,
    "version_dquote": lambda k, p: k == "info version" and '"' in p,
    "default_dquote": lambda k, p: k in ("string default", "parameter default") and '"' in p,
    "w_not_xid": lambda k, p: _has_w_not_xid(p),
    "backslash": lambda k, p: "\\" in p and not _descriptive(k),
    "linebreak": lambda k, p: "\n" in p or "\r" in p,
    "nul": lambda k, p: "\0" in p,
}
KNOWN_CLASS_PAYLOADS = ["a\\", '\\"', "a\nb", "a\x00b"]


def injection_sweep(part: int = 0, parts: int = 1, tier: str = "quick", known: list | None = None, **_: Any) -> dict:
    """Replay obligation: every payload at every slot of this part of the slot table."""
    from .common import result

    known = known or []
    doc, slots = canary_doc()
    sids = [s for i, s in enumerate(slots) if i % parts == part]
    metas = ["none", "poetry", "setup", "pdm"]
    wit, hits, n = [], set(), 0
    payloads = PAYLOADS + KNOWN_CLASS_PAYLOADS
    for si, sid in enumerate(sids):
        kind = slots[sid]["kind"]
        for pi, pl in enumerate(payloads):
            classes = [e for e in known if e["class"] in CLASSES and CLASSES[e["class"]](kind, pl)]
            if pl in KNOWN_CLASS_PAYLOADS and not classes:
                continue  # these payloads only probe whether the recorded classes are still live
            meta = metas[(si + pi) % 4] if kind.startswith("info") or tier == "thorough" or (si + pi) % 5 == 0 else "none"
            n += 1
            probs, info = run_injection(sid, pl, meta, (doc, slots))
            if not probs:
                continue
            if classes:
                # a failure is credited to a finding (KNOWN-FINDING is printed) only when it is the sole class that
                # matches; with several matching classes the failure is excused but proves none of them live
                if len(classes) == 1:
                    hits.add(classes[0]["id"])
                continue
            wit.append({"what": f"payload {pl!r} at slot '{kind}' breaks the generated code or is not reproduced faithfully", "input": {"slot": sid, "kind": kind, "payload": pl, "meta": meta}, "observed": probs[:4], "reproduced": True, "replay_func": "vlib.inject:replay"})
    return result("violated" if (wit or hits) else "holds", f"{n} (slot, payload) injections through the real generator, {len(wit)} unlisted problems", queries=n, witnesses=wit[:6], known_hits=sorted(hits), cases=[f"slot:{slots[s]['kind']}" for s in sids], bounds={"slots": len(sids), "payloads": len(PAYLOADS)}, stubs=["replay oracle: concrete runs of the real generator + CPython tokenizer/ast + tomllib; not a solver verdict"], samples=[{"slot": slots[sids[0]]["kind"], "payload": PAYLOADS[4]}] if sids else [])


def replay(w: dict) -> dict:
    i = w["input"]
    probs, info = run_injection(i["slot"], i["payload"], i.get("meta", "none"))
    return {"reproduced": bool(probs), "observed": probs[:4]}
