"""C19: without --overwrite an existing output directory is left alone: Project.build returns one error before any write."""
from pathlib import Path
from unittest import mock

from openapi_python_client import Project
from openapi_python_client.config import Config, ConfigFile, MetaType
from openapi_python_client.parser import GeneratorData
from openapi_python_client.parser.errors import GeneratorError

DOC = {"openapi": "3.1.0", "info": {"title": "g", "version": "1"}, "paths": {}}
CFGS = {
    False: Config.from_sources(ConfigFile(post_hooks=[]), MetaType.NONE, Path("doc.json"), "utf-8", False, Path("/nonexistent-verif/out")),
    True: Config.from_sources(ConfigFile(post_hooks=[]), MetaType.NONE, Path("doc.json"), "utf-8", True, Path("/nonexistent-verif/out")),
}
PROJECTS = {k: Project(openapi=GeneratorData.from_dict(DOC, config=c), config=c) for k, c in CFGS.items()}
STEPS = ("_create_package", "_build_metadata", "_build_models", "_build_api", "_run_post_hooks")


def existing_directory_guard(exists: bool, overwrite: bool) -> bool:
    """
    post: _
    """
    proj = PROJECTS[True if overwrite else False]
    calls = []

    def fake_mkdir(self, *a, **k):
        if exists:
            raise FileExistsError()

    patches = [mock.patch.object(Path, "mkdir", fake_mkdir), mock.patch("builtins.print", lambda *a, **k: None)]
    for s in STEPS:
        patches.append(mock.patch.object(Project, s, (lambda name: (lambda self: calls.append(name)))(s)))
    for p in patches:
        p.start()
    try:
        res = proj.build()
    finally:
        for p in reversed(patches):
            p.stop()
    if exists and not overwrite:
        return calls == [] and len(res) == 1 and isinstance(res[0], GeneratorError)
    return calls == list(STEPS)
