"""Shared plumbing: obligation records, result records, known findings, replay files, source fingerprints.

An *obligation* is one solver-decided statement about real /repo code.  It is a Python function
(`module:function`) executed in its own subprocess (hard timeout, memory isolation) that returns a result dict:

    status      "holds" | "violated" | "inconclusive" | "error"
    detail      free text
    queries     number of solver queries / CrossHair conditions discharged by this obligation
    solver_s    seconds spent inside the solver / CrossHair
    bounds      dict of the bounds the verdict is relative to
    functions   list of "file:first-last sha1[:10]" for the repo functions encoded
    stubs       list of stubs / assumptions that are part of the claim
    known_hits  list of known-finding ids whose recorded witness still reproduces on this tree
    witnesses   list of dicts {input, observed, expected, what, reproduced}; only *unlisted* violations
    samples     a few of the discharged sub-obligations / witnesses, written out
    nontrivial  True when the reachability twin was satisfiable (the obligation is not vacuous)
"""
from __future__ import annotations

import hashlib
import inspect
import json
import os
import time
from dataclasses import dataclass, field
from pathlib import Path
from typing import Any

VERIF = Path(__file__).resolve().parent.parent
REPO = Path(os.environ.get("VERIF_REPO", "/repo"))
EVIDENCE = VERIF / "evidence"
REPLAYS = Path(os.environ.get("VERIF_REPLAYS") or VERIF / "replays")
KNOWN_FINDINGS = VERIF / "known_findings.json"

EXIT_OK, EXIT_VIOLATION, EXIT_HARNESS = 0, 1, 3


@dataclass
class Ob:
    """One obligation of a property check."""

    name: str
    func: str  # "vlib.props.C09:pyident_valid"
    params: dict[str, Any] = field(default_factory=dict)
    timeout_s: int = 300
    must: bool = True  # must-decide (False = stretch: a timeout is reported, nothing more)
    engine: str = "E1"
    cpus: int = 1  # worker slots this obligation occupies (CrossHair fan-out obligations use more)


def seed() -> int:
    try:
        return int(os.environ.get("VERIF_SEED", "0"))
    except ValueError:
        return 0


def fingerprint(obj: Any) -> str:
    """file:first-last sha1 of the source of a repo function / class / module path."""
    try:
        if isinstance(obj, (str, Path)):
            p = Path(obj)
            data = p.read_bytes()
            return f"{p.relative_to(REPO) if p.is_relative_to(REPO) else p} sha1={hashlib.sha1(data).hexdigest()[:10]}"
        src, first = inspect.getsourcelines(obj)
        f = Path(inspect.getsourcefile(obj) or "?")
        rel = f.relative_to(REPO) if f.is_relative_to(REPO) else f
        return f"{rel}:{first}-{first + len(src) - 1} sha1={hashlib.sha1(''.join(src).encode()).hexdigest()[:10]}"
    except Exception as e:  # pragma: no cover
        return f"{obj!r} (no source: {e})"


def load_known(prop: str) -> list[dict]:
    """Entries of known_findings.json for this property that are findings (not 'fixed' records)."""
    if not KNOWN_FINDINGS.exists():
        return []
    data = json.loads(KNOWN_FINDINGS.read_text())
    return [e for e in data.get("findings", []) if e.get("property") == prop]


def known_for(known: list[dict], obligation: str) -> list[dict]:
    return [e for e in known if e.get("obligation") == obligation]


def write_replay(prop: str, ob_name: str, idx: int, payload: dict) -> Path:
    REPLAYS.mkdir(exist_ok=True)
    safe = "".join(c if c.isalnum() or c in "-_" else "_" for c in ob_name)[:60]
    p = REPLAYS / f"{prop}-{safe}-{idx}.json"
    p.write_text(json.dumps(payload, indent=1, default=repr, ensure_ascii=True))
    return p


class Timer:
    def __init__(self) -> None:
        self.t0 = time.time()
        self.solver_s = 0.0
        self.queries = 0

    def wall(self) -> float:
        return round(time.time() - self.t0, 2)


def result(status: str, detail: str = "", **kw: Any) -> dict:
    r = {
        "status": status,
        "detail": detail,
        "queries": 0,
        "solver_s": 0.0,
        "bounds": {},
        "functions": [],
        "stubs": [],
        "known_hits": [],
        "witnesses": [],
        "samples": [],
        "nontrivial": True,
    }
    r.update(kw)
    return r


def jsonable(x: Any) -> Any:
    try:
        json.dumps(x)
        return x
    except TypeError:
        if isinstance(x, dict):
            return {str(k): jsonable(v) for k, v in x.items()}
        if isinstance(x, (list, tuple, set, frozenset)):
            return [jsonable(v) for v in x]
        return repr(x)
