"""Development tool: on the current tree, which conditions fail for each recorded capturing name (C18-F1/F2)?
Prints a `fails` table for known_findings.json.  The check itself never writes that file."""
import json
import sys
from multiprocessing import Pool

sys.path.insert(0, __import__("os").path.dirname(__import__("os").path.dirname(__import__("os").path.abspath(__file__))))


def one(args):
    scope, name = args[0], args[1]
    import vlib.props.C18 as me

    me.candidates = lambda: {scope: [name], ("model" if scope == "endpoint" else "endpoint"): []}
    me.capture_sweep(scope, 0, 1, known=[], tier=args[2] if len(args) > 2 else "quick")
    return scope, name, me.DUMP.get(scope, {}).get(name, [])


if __name__ == "__main__":
    d = json.load(open(__import__("os").path.join(__import__("os").path.dirname(__import__("os").path.dirname(__import__("os").path.abspath(__file__))), "known_findings.json")))
    jobs = []
    for e in d["findings"]:
        if e["property"] == "C18":
            for n in e["names"]:
                jobs.append((e["scope"], n, "thorough"))
    jobs += [(s, n) for s, n in (("endpoint", x) for x in sys.argv[1:])]
    with Pool(int(__import__("os").environ.get("C18_POOL", "14"))) as p:
        res = p.map(one, jobs)
    out = {"model": {}, "endpoint": {}}
    for scope, name, fails in res:
        out[scope][name] = fails
    print(json.dumps(out, indent=1))
