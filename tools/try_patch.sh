#!/bin/bash
# tools/try_patch.sh <patch.diff> <Cnn> [extra ./check args]  — run a check against a scratch worktree of /repo HEAD with the patch applied
set -e
P=$(realpath "$1"); shift; C=$1; shift
W=/tmp/try-$$
git -C /repo worktree add --detach $W HEAD >/dev/null 2>&1
trap "git -C /repo worktree remove --force $W; rm -rf $W-r" EXIT
(cd $W && git apply "$P")
cd /verif && VERIF_REPO=$W VERIF_REPLAYS=$W-r ./check $C --no-evidence "$@" 2>&1 | grep -v "^KNOWN" | cut -c1-330 | tail -${TAIL:-8}
