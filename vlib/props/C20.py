"""C20 — using a component by reference is equivalent to writing it inline."""
from __future__ import annotations

from ..common import Ob
from ..e2 import harness_ob, replay  # noqa: F401

META = {"level": "model_checking", "assumptions": ["urllib.parse.urlparse is not encoded: malformed reference strings come from a pool"]}


def obligations(tier: str) -> list[Ob]:
    q = tier == "quick"
    return [
        harness_ob(
            "body_reference_chains", "C20_refs.py", tier, timeout=120 if q else 400, cpus=1,
            encoded=["openapi_python_client.parser.bodies:_resolve_reference"],
            bounds={"reference table": "3 entries, each a reference / the body / dangling / absent; start: any of them or None", "malformed references": "7 spellings, direct or behind an alias"},
        ),
        harness_ob(
            "resolvers_ref_equals_inline", "C20_equiv.py", tier, timeout=330 if q else 900, cpus=6,
            finding_by_func={"reference_keeps_component_default": "C20-F1"},
            encoded=[
                "openapi_python_client.parser.properties.schemas:parameter_from_reference", "openapi_python_client.parser.properties.schemas:parameter_from_data",
                "openapi_python_client.parser.openapi:Endpoint.add_parameters", "openapi_python_client.parser.responses:response_from_data",
                "openapi_python_client.parser.properties:_property_from_ref", "openapi_python_client.parser.properties.schemas:parse_reference_path",
            ],
            stubs=["parameter kinds, names, locations, response contents and malformed reference strings come from pools selected by symbolic indices"],
            bounds={"parameter": "4 locations x 5 kinds x 3 names x required", "response contents": 5, "malformed refs": 6, "schema kinds": "3 x 4 wrappers x required", "component aliases": "6 target shapes x 3 wrappers x 6 declaration orders, direct and through a second alias", "allOf member by reference": "Base required? x Child requires? x Child re-declares (no, same, case twin, narrower list items) x 6 declaration orders"},
        ),
        harness_ob(
            "dangling_ref_containment", "C08_state.py", tier, funcs=["only_the_failing_model_is_removed"], timeout=240 if q else 900, cpus=2,
            encoded=["openapi_python_client.parser.properties:build_schemas", "openapi_python_client.parser.properties.schemas:Schemas.add_dependencies", "openapi_python_client.parser.properties:_process_model_errors"],
            bounds={"components": "Shared / Early (failing: 7 kinds of bad piece, before or after its reference to Shared) / Late (healthy user of Shared), all 6 declaration orders"},
        ),
        Ob("replay_ref_inline_twins", "vlib.replay_checks:ref_inline_twins", {}, timeout_s=600, engine="replay", cpus=1),
    ]
