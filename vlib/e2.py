"""E2: CrossHair on real generator functions, harness modules under /verif/harness."""
from __future__ import annotations

import importlib
from pathlib import Path

from . import xh
from .common import REPO, VERIF, Ob, fingerprint


def run_harness(harness: str, funcs: list[str] | None = None, prefix: str = "", timeout: int = 90, tier: str = "quick", known: list | None = None, encoded: list[str] | None = None, stubs: list[str] | None = None, bounds: dict | None = None, parallel: int = 8, finding_by_func: dict | None = None, replay_func: str = "vlib.e2:replay", **_: object) -> dict:
    """`finding_by_func`: condition name -> known-finding id.  A reproduced counterexample of such a condition is the
    recorded finding (the condition is written so that it isolates exactly the recorded call site); its sibling
    `<name>__excl` states the same property with the finding's class assumed away."""
    hp = VERIF / "harness" / harness
    names = funcs or xh.list_conditions(hp, prefix)
    if tier != "thorough":
        names = [n for n in names if not n.endswith("_thorough")]
    known_ids = {e["id"] for e in (known or [])}
    fb = finding_by_func or {}

    def classify(rec: dict):
        kid = fb.get(rec["func"])
        return kid if kid in known_ids else None

    recs = xh.check_file(hp, names, timeout, [str(REPO)], parallel=parallel)
    res = xh.summarize(recs, hp, replay_func, what_prefix=f"{harness}:", known=known, classify=classify)
    fps = []
    for dotted in encoded or []:
        try:
            modname, _, attr = dotted.partition(":")
            obj = importlib.import_module(modname)
            for part in attr.split("."):
                if part:
                    obj = getattr(obj, part)
            fps.append(fingerprint(obj))
        except Exception as e:  # pragma: no cover
            fps.append(f"{dotted} (unresolved: {e})")
    res["functions"] = fps
    res["stubs"] = stubs or []
    res["bounds"] = {"per_condition_timeout_s": timeout, **(bounds or {})}
    res["cases"] = [f"{harness}:{c}" for c in res.get("cases", [])]
    return res


def replay(w: dict) -> dict:
    return xh.replay_call(Path(w["harness"]), w["input"], [str(REPO)])


def harness_ob(name: str, harness: str, tier: str, funcs: list[str] | None = None, prefix: str = "", timeout: int | None = None, cpus: int = 4, **kw: object) -> Ob:
    to = timeout or (90 if tier == "quick" else 400)
    params = {"harness": harness, "funcs": funcs, "prefix": prefix, "timeout": to, **kw}
    return Ob(name, "vlib.e2:run_harness", params, timeout_s=to * 3 + 120, engine="E2", cpus=cpus)
