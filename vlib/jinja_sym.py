"""E1 for templates: a path-enumerating symbolic evaluator for the small Jinja subset the escaping macros use.

The *real* template source is parsed with jinja2 (`Environment.parse`, the same options as `Project.env`), the macro's
node tree is walked with `BStr` values for the document text: `{% if %}` forks the walk (each path carries its z3
condition), `{% set %}` rebinds, `{{ }}` and template data append to the output.  Supported: Name, Const, TemplateData,
Output, If/elif/else, Assign, Filter replace / trim, `in` with a constant needle, not / and / or, truth of a string.
Anything else raises Unsupported -> the obligation is inconclusive, never a verdict.

Whitespace control is jinja2's own: the lexer applies trim_blocks / lstrip_blocks and the `-` markers while parsing,
so the TemplateData nodes already hold exactly the text that will be emitted.
"""
from __future__ import annotations

from pathlib import Path
from typing import Any

import z3

from .bstr import core
from .bstr.core import BStr, Unsupported


def template_env():
    import jinja2

    import openapi_python_client as opc

    tdir = Path(opc.__file__).parent / "templates"
    env = jinja2.Environment(loader=jinja2.FileSystemLoader(str(tdir)), trim_blocks=True, lstrip_blocks=True, extensions=["jinja2.ext.loopcontrols"], keep_trailing_newline=True)
    env.filters.update(opc.TEMPLATE_FILTERS)
    return env, tdir


def find_macro(template: str, name: str):
    from jinja2 import nodes

    env, tdir = template_env()
    src = (tdir / template).read_text()
    tree = env.parse(src)
    for m in tree.find_all(nodes.Macro):
        if m.name == name:
            return m, src
    raise Unsupported(f"macro {name} not found in {template}")


class Path_:
    __slots__ = ("cond", "env", "out")

    def __init__(self, cond: Any, env: dict, out: list) -> None:
        self.cond, self.env, self.out = cond, env, out

    def fork(self, extra: Any) -> "Path_":
        return Path_(z3.And(self.cond, extra), dict(self.env), list(self.out))


def _truth(v: Any) -> Any:
    if isinstance(v, bool):
        return z3.BoolVal(v)
    if isinstance(v, str):
        return z3.BoolVal(bool(v))
    if isinstance(v, BStr):
        return v.n != core.lv(0)
    if z3.is_bool(v):
        return v
    if v is None:
        return z3.BoolVal(False)
    raise Unsupported(f"truth of {type(v).__name__}")


def _strip(v: Any) -> Any:
    """str.strip(): only its emptiness is ever needed by the templates -> returned as a `_Stripped` truth carrier."""
    if isinstance(v, str):
        return v.strip()
    if isinstance(v, BStr):
        nonspace = z3.Or([z3.And(core.inb(v, i), z3.Not(core.P_SPACE(v.ch[i]))) for i in range(v.cap)]) if v.cap else z3.BoolVal(False)
        return nonspace  # z3 Bool: "the stripped string is non-empty"
    raise Unsupported("trim of a non-string")


def _expr(node: Any, env: dict) -> Any:
    from jinja2 import nodes

    if isinstance(node, nodes.Const):
        return node.value
    if isinstance(node, nodes.Name):
        if node.name not in env:
            raise Unsupported(f"free name {node.name}")
        return env[node.name]
    if isinstance(node, nodes.TemplateData):
        return node.data
    if isinstance(node, nodes.Filter):
        v = _expr(node.node, env)
        args = [_expr(a, env) for a in node.args]
        if node.name == "replace" and len(args) == 2 and all(isinstance(a, str) for a in args) and not node.kwargs:
            if isinstance(v, str):
                return v.replace(*args)
            return core.replace_str(v, args[0], args[1])
        if node.name == "trim" and not args:
            return _strip(v)
        raise Unsupported(f"filter {node.name}")
    if isinstance(node, nodes.Not):
        return z3.Not(_truth(_expr(node.node, env)))
    if isinstance(node, nodes.And):
        return z3.And(_truth(_expr(node.left, env)), _truth(_expr(node.right, env)))
    if isinstance(node, nodes.Or):
        return z3.Or(_truth(_expr(node.left, env)), _truth(_expr(node.right, env)))
    if isinstance(node, nodes.Compare) and len(node.ops) == 1 and node.ops[0].op in ("in", "notin"):
        needle, hay = _expr(node.expr, env), _expr(node.ops[0].expr, env)
        if not isinstance(needle, str) or len(needle) != 1:
            raise Unsupported("`in` with a needle that is not a constant character")
        r = z3.BoolVal(needle in hay) if isinstance(hay, str) else core.contains_char(hay, needle)
        return z3.Not(r) if node.ops[0].op == "notin" else r
    raise Unsupported(f"expression node {type(node).__name__}")


def _exec(body: list, paths: list[Path_]) -> list[Path_]:
    from jinja2 import nodes

    for node in body:
        if isinstance(node, nodes.Output):
            for p in paths:
                for part in node.nodes:
                    v = _expr(part, p.env)
                    if not isinstance(v, (str, BStr)):
                        raise Unsupported("output of a non-string")
                    p.out.append(v)
        elif isinstance(node, nodes.Assign):
            if not isinstance(node.target, nodes.Name):
                raise Unsupported("set with a non-name target")
            for p in paths:
                p.env[node.target.name] = _expr(node.node, p.env)
        elif isinstance(node, nodes.If):
            nxt: list[Path_] = []
            for p in paths:
                rest = p
                branches = [(node.test, node.body)] + [(e.test, e.body) for e in node.elif_]
                for test, b in branches:
                    c = _truth(_expr(test, rest.env))
                    nxt += _exec(b, [rest.fork(c)])
                    rest = rest.fork(z3.Not(c))
                nxt += _exec(node.else_, [rest])
            paths = nxt
        else:
            raise Unsupported(f"statement node {type(node).__name__}")
    return paths


def run_macro(template: str, name: str, args: dict) -> list[Path_]:
    """All paths of the macro body with `args` bound (BStr / str / bool); defaults of the macro fill the rest."""
    m, _ = find_macro(template, name)
    env = {}
    names = [a.name for a in m.args]
    defaults = [None] * (len(names) - len(m.defaults)) + [d for d in m.defaults]
    for n_, d in zip(names, defaults):
        if n_ in args:
            env[n_] = args[n_]
        elif d is not None:
            env[n_] = _expr(d, {})
        else:
            raise Unsupported(f"macro argument {n_} not bound")
    return _exec(m.body, [Path_(z3.BoolVal(True), env, [])])


def render_real(template: str, name: str, **kwargs: Any) -> str:
    """The real macro, rendered by jinja2 itself (reference for translator validation and for replay)."""
    env, _ = template_env()
    call = ", ".join(f"{k}=_a_{k}" for k in kwargs)
    t = env.from_string('{% from "' + template + '" import ' + name + " %}{{ " + name + "(" + call + ") }}")
    return t.render(**{f"_a_{k}": v for k, v in kwargs.items()})
