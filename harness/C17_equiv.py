"""C17: notation rewrites implemented inside the generator produce the same property tree (real validators/builders)."""
from pathlib import Path

from openapi_python_client import schema as oai
from openapi_python_client.config import Config, ConfigFile, MetaType
from openapi_python_client.parser.errors import PropertyError
from openapi_python_client.parser.properties import Schemas, property_from_data

CFG = Config.from_sources(ConfigFile(post_hooks=[]), MetaType.NONE, Path("doc.json"), "utf-8", True, None)
CFG_LIT = Config.from_sources(ConfigFile(post_hooks=[], literal_enums=True), MetaType.NONE, Path("doc.json"), "utf-8", True, None)
BASES = ({"type": "string"}, {"type": "integer"}, {"type": "string", "format": "date"}, {"type": "array", "items": {"type": "string"}}, {"type": "string", "enum": ["a", "b"]}, {"type": "boolean"})


def _pick(pool, i):
    for k in range(len(pool)):
        if i == k:
            return pool[k]
    return pool[0]


def _describe(prop):
    if isinstance(prop, PropertyError):
        return ("error", prop.detail)
    inner = tuple(sorted(type(p).__name__ + ":" + p.get_type_string() for p in getattr(prop, "inner_properties", [])))
    return (type(prop).__name__, prop.get_type_string(), prop.get_type_string(json=True), prop.required, str(prop.python_name), inner, None if prop.default is None else prop.default.python_code)


def _build(d, required, cfg=CFG):
    prop, schemas = property_from_data(name="p", required=True if required else False, data=oai.Schema.model_validate(d), schemas=Schemas(), parent_name="Parent", config=cfg)
    return _describe(prop), sorted(str(k) for k in schemas.classes_by_name)


def nullable30_equals_type_list31(base: int, required: bool) -> bool:
    """
    OpenAPI 3.0 `nullable: true` is normalised (Schema.handle_nullable) to the same thing the 3.1 type list means.
    pre: 0 <= base < 6
    post: _
    """
    b = _pick(BASES, base)
    a30 = dict(b, nullable=True)
    a31 = dict(b, type=[b["type"], "null"])
    return _build(a30, required) == _build(a31, required)


def nullable30_equals_null_union_member(base: int, required: bool) -> bool:
    """
    (an enum without null among its values does not admit null in 3.0 either, so enums are not part of this rewrite)
    pre: 0 <= base < 6 and base != 4
    post: _
    """
    b = _pick(BASES, base)
    a30 = dict(b, nullable=True)
    a31 = {"oneOf": [dict(b), {"type": "null"}]}
    return _build(a30, required) == _build(a31, required)


def handle_nullable_idempotent(base: int) -> bool:
    """
    pre: 0 <= base < 6
    post: _
    """
    s1 = oai.Schema.model_validate(dict(_pick(BASES, base), nullable=True))
    s2 = oai.Schema.model_validate(s1.model_dump(by_alias=True, exclude_none=True))
    return s1.model_dump() == s2.model_dump()


def enum_with_null_equals_union(literal: bool, required: bool, with_default: bool) -> bool:
    """
    A null among the enum values makes the property nullable rather than a member: same tree as the explicit union of
    null and that enum, under both enum styles.
    post: _
    """
    cfg = CFG_LIT if literal else CFG
    e = {"type": "string", "enum": ["a", "b"]}
    a = {"enum": ["a", "b", None]}
    b = {"oneOf": [{"type": "null"}, dict(e)]}
    if with_default:
        a["default"] = "a"
        b["default"] = "a"
    da, ca = _build(a, required, cfg)
    db, cb = _build(b, required, cfg)
    if da[0] == "error" or db[0] == "error":
        return False
    # null is not a member: the union has a None branch and an enum branch with exactly the two values
    if da[6] != db[6] or (with_default and da[6] is None):
        return False  # the declared default survives the rewrite, identically in both notations
    return da[0] == db[0] == "UnionProperty" and da[1] == db[1] and da[2] == db[2] and da[3] == db[3] and "None" in da[1]
