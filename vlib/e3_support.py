"""Run-time helpers imported by the generated E3 harness modules (executed under CrossHair and in plain replay).

Keep this module free of anything CrossHair would have to realise: plain recursion over JSON data only.
"""
from __future__ import annotations

from typing import Any


def is_plain_json(x: Any, depth: int = 0) -> bool:
    """Only dict/list/str/int/float/bool/None — no sentinel, model, enum, date or other rich object."""
    if x is None or x is True or x is False:
        return True
    t = type(x)
    # symbolic ints/strs are proxies: accept anything that behaves as the JSON scalar types by isinstance
    if isinstance(x, (str, int, float)) and not hasattr(x, "value"):
        return type(x).__name__ not in ("Unset",)
    if isinstance(x, dict):
        for k, v in x.items():
            if not isinstance(k, str) or not is_plain_json(v, depth + 1):
                return False
        return True
    if isinstance(x, (list, tuple)) and t is not tuple:
        for v in x:
            if not is_plain_json(v, depth + 1):
                return False
        return True
    return False


def roundtrip_ok(cls: Any, d1: Any, d2: Any) -> bool:
    """d1 and d2 are two separately built, equal copies of one JSON instance (from_dict must not see aliasing)."""
    m = cls.from_dict(d1)
    out = m.to_dict()
    if out != d2:
        return False
    if not is_plain_json(out):
        return False
    m2 = cls.from_dict(out)
    return m2 == m


class Resp:
    """Stand-in for httpx.Response at the API boundary the generated code uses."""

    def __init__(self, status_code: int, payload: Any = None, text: str = "", content: bytes = b"", headers: Any = None) -> None:
        self.status_code = status_code
        self._payload = payload
        self.text = text
        self.content = content
        self.headers = headers if headers is not None else {}

    def json(self) -> Any:
        return self._payload


class _Sync:
    def __init__(self, owner: "RecClient") -> None:
        self.owner = owner

    def request(self, **kw: Any) -> Any:
        self.owner.sync_calls.append(kw)
        return self.owner.resp


class _Async:
    def __init__(self, owner: "RecClient") -> None:
        self.owner = owner

    async def request(self, **kw: Any) -> Any:
        self.owner.async_calls.append(kw)
        return self.owner.resp


class RecClient:
    """Recording stub for Client / AuthenticatedClient: the claim ends at `.request(**kwargs)`."""

    def __init__(self, resp: Any = None, raise_on_unexpected_status: bool = False) -> None:
        self.resp = resp if resp is not None else Resp(200)
        self.raise_on_unexpected_status = raise_on_unexpected_status
        self.sync_calls: list = []
        self.async_calls: list = []

    def get_httpx_client(self) -> Any:
        return _Sync(self)

    def get_async_httpx_client(self) -> Any:
        return _Async(self)


def drive(coro: Any) -> Any:
    """Run a coroutine that never really suspends (our stub `request` is an async def returning at once)."""
    try:
        coro.send(None)
    except StopIteration as e:
        return e.value
    raise RuntimeError("coroutine suspended")


def pick(pool: Any, i: int) -> Any:
    """Select from a small concrete pool by symbolic index (forks by equality; never hashes a symbolic value)."""
    for k in range(len(pool)):
        if i == k:
            return pool[k]
    return pool[0]


def tristate_ok(cls: Any, d1: Any, d2: Any, names: Any, UNSET: Any) -> bool:
    """absent <-> UNSET, null <-> None, present <-> a value; and the same three states come back out of to_dict."""
    m = cls.from_dict(d1)
    for wire, py in names:
        a = getattr(m, py)
        if wire not in d2:
            ok = a is UNSET
        elif d2[wire] is None:
            ok = a is None
        else:
            ok = a is not None and a is not UNSET
        if not ok:
            return False
    out = m.to_dict()
    for wire, py in names:
        if (wire in out) != (wire in d2):
            return False
        if wire in d2 and (out[wire] is None) != (d2[wire] is None):
            return False
    return True


def required_ok(cls: Any, d: Any, entry: Any) -> bool:
    """A key the document requires cannot be left out: the decoder rejects a document without it and the constructor
    has no default for it (unless the schema declares one)."""
    import attr

    wire, py, has_default = entry
    d = dict(d)
    d.pop(wire, None)
    if py and not has_default:
        f = getattr(attr.fields(cls), py, None)
        if f is None or f.default is not attr.NOTHING:
            return False
    try:
        cls.from_dict(d)
    except (KeyError, ValueError, TypeError, AttributeError):
        return True
    return False


# ------------------------------------------------------------------------------------------------ endpoint oracles
import datetime as _dt
import enum as _enum
import uuid as _uuid

_ALLOWED_KEYS = ("method", "url", "params", "cookies", "headers", "json", "data", "files", "content")


def encode(x: Any) -> Any:
    """JSON form of a decoded value (model -> dict, enum -> value, date -> ISO text, ...)."""
    if hasattr(x, "to_dict"):
        return x.to_dict()
    if isinstance(x, list):
        return [encode(v) for v in x]
    if isinstance(x, _enum.Enum):
        return x.value
    if isinstance(x, (_dt.date, _dt.datetime)):
        return x.isoformat()
    if isinstance(x, _uuid.UUID):
        return str(x)
    return x


def _part(v: Any) -> tuple[str, Any]:
    """What a multipart field value (as handed to httpx `files=`) denotes: ('text', str) | ('json', value) | ('file', bytes)."""
    import json as _json

    if isinstance(v, bytes):
        return "text", v.decode()
    if isinstance(v, str):
        return "text", v
    if isinstance(v, tuple) and len(v) == 3:
        name, payload, mime = v
        if hasattr(payload, "read"):
            pos = payload.tell()
            data = payload.read()
            payload.seek(pos)
            return "file", data
        if isinstance(payload, (bytes, str)):
            text = payload.decode() if isinstance(payload, bytes) else payload
            if mime == "application/json":
                return "json", _json.loads(text)
            return "text", text
    return "bad", v


def _multipart_value_ok(v: Any, w: Any) -> bool:
    """The part sent for a field denotes the wire value `w` of the document-derived instance: text parts carry the
    textual form of scalars (dates / uuids / enum values as written on the wire), lists and objects travel as JSON
    parts, binary properties as file parts with exactly the given bytes."""
    kind, got = _part(v)
    if kind == "bad":
        return False
    if isinstance(w, bytes):
        return kind == "file" and got == w
    if isinstance(w, (list, dict)):
        return kind == "json" and got == w
    if kind != "text":
        return False
    if w is None:
        return got in ("None", "null", "")
    if isinstance(w, bool):
        return got.lower() == ("true" if w else "false")
    if isinstance(w, int):
        return got == str(w)
    if isinstance(w, float):
        try:
            return float(got) == w
        except ValueError:
            return False
    return got == w


def _multipart_shape_ok(files: Any, wire: Any) -> bool:
    items = dict(files) if not isinstance(files, dict) else files
    if set(items.keys()) != set(wire.keys()):
        return False
    for k, v in items.items():
        if not _multipart_value_ok(v, wire[k]):
            return False
    return True


def request_ok(mod: Any, kw: dict, spec: dict, exp_path: dict, exp_params: dict, exp_headers: dict, exp_cookies: dict, exp_body: Any, AuthClient: Any, UNSET: Any) -> bool:
    got = mod._get_kwargs(**kw)
    for k in got:
        if k not in _ALLOWED_KEYS:
            return False
    if got.get("method") != spec["method"]:
        return False
    url = spec["path"]
    for name, v in exp_path.items():
        url = url.replace("{" + name + "}", v if isinstance(v, str) else str(v))
    if got.get("url") != url:
        return False
    if spec["has_query"]:
        if got.get("params") != exp_params:
            return False
    elif "params" in got:
        return False
    if spec["has_cookie"]:
        if got.get("cookies") != exp_cookies:
            return False
    elif "cookies" in got:
        return False
    headers = dict(got.get("headers", {}))
    ctype = headers.pop("Content-Type", None)
    if headers != exp_headers:
        return False
    body_keys = [k for k in ("json", "data", "files", "content") if k in got]
    if exp_body is None:
        if body_keys or ctype is not None:
            return False
    else:
        kind, wire, want_ct = exp_body
        if body_keys != [kind]:
            return False
        if kind == "content":
            if got["content"] is not wire:
                return False
        elif kind == "files":
            if not _multipart_shape_ok(got["files"], wire):
                return False
        elif got[kind] != wire:
            return False
        if ctype != want_ct:
            return False
    # the four call variants send exactly this request, once
    ann = _client_annotation(mod.sync_detailed)
    if spec["security"] != (ann is AuthClient):
        return False
    if _client_annotation(mod.asyncio_detailed) is not ann:
        return False
    c = RecClient(Resp(spec.get("unused_status", 418)), False)
    r = mod.sync_detailed(client=c, **kw)
    if len(c.sync_calls) != 1 or len(c.async_calls) != 0 or r.parsed is not None:
        return False
    r2 = drive(mod.asyncio_detailed(client=c, **kw))
    if len(c.sync_calls) != 1 or len(c.async_calls) != 1 or r2.parsed is not None:
        return False
    if not _same_request(c.sync_calls[0], got) or not _same_request(c.async_calls[0], got):
        return False
    if hasattr(mod, "sync"):
        c2 = RecClient(Resp(spec.get("unused_status", 418)), False)
        if mod.sync(client=c2, **kw) is not None or drive(mod.asyncio(client=c2, **kw)) is not None:
            return False
        if len(c2.sync_calls) != 1 or len(c2.async_calls) != 1:
            return False
        if not _same_request(c2.sync_calls[0], got) or not _same_request(c2.async_calls[0], got):
            return False
    return True


def _client_annotation(fn: Any) -> Any:
    import inspect

    return inspect.signature(fn).parameters["client"].annotation


def _same_request(a: dict, b: dict) -> bool:
    if set(a.keys()) != set(b.keys()):
        return False
    for k in a:
        if k == "content":
            if a[k] is not b[k]:
                return False
        elif k == "files":
            if _files_repr(a[k]) != _files_repr(b[k]):
                return False
        elif a[k] != b[k]:
            return False
    return True


def _files_repr(f: Any) -> Any:
    items = f.items() if isinstance(f, dict) else f
    out = []
    for k, v in items:
        if isinstance(v, tuple):
            out.append((k, tuple(id(x) if hasattr(x, "read") else x for x in v)))
        else:
            out.append((k, v))
    return out


def response_ok(mod: Any, status: int, kind: str, payload: Any, text: str, content: bytes, raise_flag: bool, Unexpected: Any, has_plain: str, _unused: Any) -> bool:
    headers = {"x-h": "v"}
    resp = Resp(status, payload, text, content, headers)
    c = RecClient(resp, raise_flag)
    raised, parsed = False, None
    try:
        parsed = mod._parse_response(client=c, response=resp)
    except Unexpected as e:
        raised = True
        if e.status_code != status or e.content is not content:
            return False
    if kind == "undocumented":
        if raised != raise_flag:
            return False
        if not raised and parsed is not None:
            return False
    else:
        if raised:
            return False
        if kind == "json":
            if encode(parsed) != payload:
                return False
            if payload is not None and isinstance(payload, dict) and not hasattr(parsed, "to_dict") and not isinstance(parsed, dict):
                return False
        elif kind == "text":
            if parsed != text:
                return False
        elif kind == "bytes":
            if not hasattr(parsed, "payload") or parsed.payload.read() != content:
                return False
        elif kind == "none":
            if parsed is not None:
                return False
    # detailed wrapper: raw status, headers and body are handed through
    try:
        r = mod._build_response(client=c, response=resp)
    except Unexpected:
        return raised
    if raised:
        return False
    if r.status_code != status or r.content is not content or r.headers is not headers:
        return False
    if kind == "bytes":
        return hasattr(r.parsed, "payload")
    return encode(r.parsed) == encode(parsed)


def missing_piece(why: str) -> bool:
    """A piece the document declares is absent from the generated code (the condition exists to report exactly that)."""
    return False


# ------------------------------------------------------------------------------------------------ C11 / C13 / C14 helpers
import typing as _typing


def conforms(value: Any, hint: Any, depth: int = 0) -> bool:
    """Is `value` an instance of the annotation `hint` at run time (int accepted for float)?"""
    if hint is _typing.Any or hint is object:
        return True
    if hint is None or hint is type(None):
        return value is None
    origin = _typing.get_origin(hint)
    args = _typing.get_args(hint)
    if origin is _typing.Union:
        for a in args:
            if conforms(value, a, depth + 1):
                return True
        return False
    if origin is _typing.Literal:
        for a in args:
            if type(a) is type(value) and a == value:
                return True
            if isinstance(value, (str, int)) and not isinstance(value, bool) and a == value and isinstance(a, type(value).__mro__[-2] if False else (str, int)):
                return True
        return False
    if origin in (list, _typing.List):
        if not isinstance(value, list):
            return False
        for v in value:
            if args and not conforms(v, args[0], depth + 1):
                return False
        return True
    if origin in (dict, _typing.Dict):
        if not isinstance(value, dict):
            return False
        for k, v in value.items():
            if args and not (conforms(k, args[0], depth + 1) and conforms(v, args[1], depth + 1)):
                return False
        return True
    if origin is tuple:
        return isinstance(value, tuple)
    if isinstance(hint, _typing.TypeVar):
        return True
    if isinstance(hint, type):
        if hint is float:
            return isinstance(value, (int, float)) and not isinstance(value, bool)
        if hint is int:
            return isinstance(value, int) and not isinstance(value, bool)
        return isinstance(value, hint)
    return True  # unknown construct: do not guess


def annotations_ok(cls: Any, d1: Any, names: Any, ns: dict) -> bool:
    """After decoding, every attribute is an instance of its annotation; additional_properties values too."""
    m = cls.from_dict(d1)
    hints = _typing.get_type_hints(cls, globalns=ns, localns=ns)
    for wire, py in names:
        if not conforms(getattr(m, py), hints[py]):
            return False
    if hasattr(m, "additional_properties") and "additional_properties" in hints:
        if not conforms(m.additional_properties, hints["additional_properties"]):
            return False
    return True


def nullability_ok(cls: Any, table: Any, ns: dict, UnsetT: Any) -> bool:
    """The declared type of every attribute admits None exactly when the document makes the property nullable, and
    admits Unset exactly when the property may be omitted (C10: 'the declared type admits None exactly when the schema
    is nullable').  `table` = (python name, nullable, optional, any) per property, computed from the document."""
    hints = _typing.get_type_hints(cls, globalns=ns, localns=ns)
    for py, nullable, optional, is_any in table:
        h = hints[py]
        if is_any:
            continue  # an untyped property is annotated Any: it admits everything
        args = _typing.get_args(h) if _typing.get_origin(h) is _typing.Union else (h,)
        admits_none = type(None) in args or h is type(None)
        admits_unset = UnsetT in args
        if admits_none != bool(nullable) or admits_unset != bool(optional):
            return False
    return True


def defaults_ok(cls: Any, required_kwargs: dict, expected: Any) -> bool:
    """An instance built with no optional arguments has the declared typed defaults and encodes exactly them."""
    m = cls(**required_kwargs)
    out = m.to_dict()
    for wire, py, want_json in expected:
        got = getattr(m, py)
        if encode(got) != want_json:
            return False
        if isinstance(want_json, str) and isinstance(got, str) and type(got) is not str and not hasattr(got, "value"):
            return False
        if out.get(wire, "<absent>") != want_json:
            return False
    return True


def membership_ok(cls: Any, base: dict, wire: str, candidate: Any, listed: bool, py: str) -> bool:
    """Decoding a listed value yields it and re-encodes to itself; decoding an unlisted value fails."""
    d = dict(base)
    d[wire] = candidate
    try:
        m = cls.from_dict(d)
    except (ValueError, TypeError, KeyError):
        return not listed
    if not listed:
        return False
    out = m.to_dict()
    got = out.get(wire, "<absent>")
    return got == candidate and type(got) is type(candidate) and encode(getattr(m, py)) == candidate
