"""Regenerates MANIFEST.json from the table below:  .venv/bin/python -m vlib.manifest"""
from __future__ import annotations

import json
from pathlib import Path

VERIF = Path(__file__).resolve().parent.parent

# property -> (technique, level text, level note, design ref)
CLAIMED: dict[str, tuple[str, str, str, str]] = {}
NOT_YET: dict[str, str] = {}


def claim(pid, technique, text, note, ref):
    CLAIMED[pid] = (technique, text, note, ref)


claim(
    "C06",
    "CrossHair symbolic execution (z3) of the real error-handling / builder functions with symbolic diagnostics lists, JSON-typed values and stubbed environment",
    "Bounded symbolic execution of the real functions: for every value inside the harness bounds the exit-status relation holds and no builder raises; counterexamples are replayed concretely.",
    "Claim starts at the typed model: document loaders (ruamel/json) and pydantic-core are not encoded; bounds (list lengths, pools) are listed in evidence.",
    "DESIGN.md §5 C06",
)
claim(
    "C09",
    "bounded symbolic strings (QF_BV, z3): AST interpretation of the real utils.py name kernels over all strings of length <= K over Sigma; CrossHair on the scope-level conflict resolution",
    "For every string inside the bound the derived name is a non-keyword identifier, modulo the recorded known findings whose classes are assumed away; the translator is validated against the real functions on every run; witnesses are replayed.",
    "Bounds: K (4 for PythonIdentifier, 2 for ClassName in the quick tier), alphabet Sigma (ASCII + representatives of every Unicode signature class, U+03A3 and surrogates excluded), NFKC folding by the Python parser is outside the claim.",
    "DESIGN.md §5 C09",
)

claim(
    "C02",
    "CrossHair symbolic execution (z3) of the regenerated model classes' from_dict/to_dict with schema-directed symbolic JSON instances",
    "For every skeleton model and every JSON instance inside the bounds (all presence patterns, null where nullable, every union branch, symbolic leaves) decode/encode is the identity, the encoded form is plain JSON, and decode(encode(m)) == m: CrossHair 'Confirmed over all paths' per class; counterexamples are replayed on a freshly regenerated client.",
    "Document shape is bounded by the skeleton family (vlib/skeletons.py); strings <= 3/4 chars, lists <= 2, nesting 1/2; date/uuid/enum leaves from pools; tz-aware date-times outside the claim (CrossHair datetime model).",
    "DESIGN.md §5 C02",
)
claim(
    "C03",
    "CrossHair symbolic execution (z3) of the regenerated _get_kwargs / sync_detailed / asyncio_detailed / sync / asyncio against an oracle table built from the document",
    "For every skeleton operation and all argument values/set-unset patterns inside the bounds, exactly one request is issued whose method, url, params, headers, cookies, body kind and Content-Type equal the document-derived oracle; blocking and asyncio variants send the same kwargs; secured operations demand AuthenticatedClient.",
    "The claim ends at the httpx API boundary (recording stub); httpx's wire encoding is not encoded. Request media types and their Content-Type come from the document's own keys (parameters such as '; charset=utf-8' included); multipart parts are compared by what they denote (text / JSON / file part with the given bytes) for every property kind; leaving out an argument whose schema declares a default must send that default. Known findings C03-F1 (array of files in multipart) and C03-F2 (union-typed header) sit in a skeleton of their own. Shapes outside the skeleton family are outside the claim.",
    "DESIGN.md §5 C03",
)
claim(
    "C04",
    "CrossHair symbolic execution (z3) of the regenerated _parse_response/_build_response with symbolic status, payload and raise_on_unexpected_status",
    "For every skeleton operation, every status in (documented + undocumented) pool and every schema-valid payload inside the bounds the parsed value equals the document-derived decoding, raw status/headers/content are handed through, undocumented statuses yield None or UnexpectedStatus.",
    "Status codes come from a pool (documented codes, one undocumented registered code, one unregistered code while finding C04-F1 is not live); responses are stubs of httpx.Response.",
    "DESIGN.md §5 C04",
)
claim(
    "C10",
    "CrossHair symbolic execution (z3) of regenerated from_dict/to_dict and _get_kwargs with symbolic absent/null/present states",
    "For every skeleton property and parameter: absent <-> UNSET and not emitted/not sent, null <-> None where nullable, present <-> value, in both directions, for all symbolic instances inside the bounds.",
    "Document shape bounded by the skeleton family (also regenerated with literal_enums); the annotation half (declared type admits None exactly when the document makes the property nullable, Unset exactly when it may be omitted; required <=> no default) is evaluated on the regenerated classes of the family (tri_hints_ / reqd_ conditions).",
    "DESIGN.md §5 C10",
)

claim(
    "C07",
    "CrossHair symbolic execution (z3) of the real accounting loops (EndpointCollection.from_data, _create_schemas, _process_model_errors) with nondeterministic per-item stubs",
    "For every failing subset, tag assignment and generate_all_tags setting (3 operations), and every success/failure table (3 components), each item ends up generated or named in a diagnostic carrying METHOD and path / the component reference; removal cascades list every removed reference.",
    "Per-item builders are stubs in the accounting loops; Endpoint.from_data (responses + request media types of one operation, nothing stubbed), build_schemas on component pairs whose class names coincide, and Project.build's tag directories (rendering replaced by an endpoint marker) run for real. The census on whole documents is a concrete replay oracle over the skeleton family (labelled engine=replay in evidence), not a solver verdict; silent module-file collisions (AB/Ab) are findings C07-F1/F2 of the E1 collision query.",
    "DESIGN.md §5 C07",
)
claim(
    "C08",
    "CrossHair symbolic execution (z3) of the real removal cascade over symbolic dependency graphs, of the failed-builder-step state preservation, and of endpoint containment with stubs",
    "Removed set = reverse-reachable closure of the failing models for every 3-node (4 thorough) dependency graph and failing subset, nothing else is removed; a failed property_from_data/update_schemas_with_data step leaves every registered class in place; the endpoints of non-failing operations are the same with and without the failing ones.",
    "Bad pieces come from a pool of 8 invalid schemas; the byte-level differential on whole documents (bad piece inserted at a position of each skeleton) is a concrete replay oracle over a finite choice set.",
    "DESIGN.md §5 C08",
)
claim(
    "C12",
    "CrossHair symbolic execution (z3) of real parsing + Jinja rendering with declaration order as a symbolic permutation and with the iteration order of *every set the generator builds* as a symbolic permutation (the generator's modules are compiled from a syntax tree in which each set(...), set display, set comprehension and factory=set builds an order-controlled set)",
    "For every explored permutation of components.schemas (allOf parent after child, mutual references), of paths, and of the iteration order of every import set, the rendered model and endpoint modules equal the canonical rendering byte for byte.",
    "Bounds: 5 / 8 schemas, 3 / 2 paths, 4-23 permutation indices (one index drives every set of a run; sets of size <= 4 see all their orders); union templates are outside the symbolic run (jinja Namespace vs CrossHair) and covered by the subprocess replay under different PYTHONHASHSEED and shuffled documents; ruff post-hooks outside the claim.",
    "DESIGN.md §5 C12",
)
claim(
    "C20",
    "CrossHair symbolic execution (z3) of the real resolvers (parameters, responses, request-body chains, schema references) against their inline twins",
    "For every pooled parameter (location x kind x name x required), response content and schema kind the referenced component yields the same endpoint/property description as the inline copy, every reference to one schema shares one class object, every malformed/dangling/circular reference is a diagnostic that leaves Schemas/Parameters untouched.",
    "urlparse is not encoded (reference strings from pools: 6-7 malformed spellings each for parameter, response and request-body references); a schema used as allOf member by reference is left unchanged by that use (8 x 4 x 6 family of Base/Child/Sibling documents); byte-identity of endpoint modules for ref-vs-inline documents is a concrete replay oracle on four twin documents.",
    "DESIGN.md §5 C20",
)

claim(
    "C05",
    "bounded symbolic strings (QF_BV, z3): AST interpretation of the real escaping kernels, and symbolic path-by-path evaluation of the real safe_docstring macro (jinja2 node tree of templates/helpers.jinja), composed with z3 lexer models of the consuming literal contexts (validated against compile()/tokenize/tomllib); replay of payloads through the real generator",
    "For every payload of length <= K over Sigma the escaped text stays one literal of its context (Python double-quoted string, raw/plain docstring, TOML basic string, repr-based default) and decodes to the original, modulo the recorded known findings whose character classes are assumed away; every solver witness is replayed on the real kernel + real consumer. The slot x payload sweep through the whole generator is a concrete replay oracle.",
    "K = 4 (quick) / 6 (thorough) for the Python kernels, 6 / 10 for the docstring macro (the evaluator is validated against jinja2's own rendering on every run); alphabet Sigma; the call site of the TOML description is isolated as a one-line function whose text is checked against Project.__init__; slots are those of the canary document (45); custom templates outside the claim.",
    "DESIGN.md §5 C05",
)
claim(
    "C11",
    "CrossHair symbolic execution (z3) of regenerated from_dict and _get_kwargs with a recursive run-time conformance check against typing.get_type_hints; mypy itself only as a concrete gate",
    "For every skeleton model and every symbolic instance inside the bounds each decoded attribute is an instance of its annotation (forward references resolved against the models package); every value admitted by a parameter/body annotation that the schema-directed builder produces is accepted by the encoder. 'Passes mypy' is not solver-decided.",
    "mypy is an external static analyser with no solver encoding: it is run with the project's own strictness flags over every skeleton package in both enum styles as a concrete gate (engine=replay; error lines of the two recorded classes C11-F1/F2 are known findings, any other error line is a violation); document shape bounded by the skeleton family.",
    "DESIGN.md §5 C11",
)
claim(
    "C13",
    "CrossHair (z3) on every real convert_value with a default of symbolic JSON type; bounded symbolic strings (QF_BV, z3) for string defaults through repr/escape models; CrossHair on regenerated default instances",
    "Every (kind, JSON value) inside the pools is either rejected with a PropertyError or emitted as source that evaluates to the equivalent typed value; allOf re-conversion uses the merged type; an instance built without optional arguments encodes exactly the declared defaults. Known findings (non-finite floats, double quotes in string defaults) are assumed away by class.",
    "float()/isoparse()/UUID() run concretely on pooled inputs; string defaults symbolic up to length 3 (quick) / 5 (thorough); parameter defaults: leaving out an argument of a skeleton operation sends exactly the declared default in every location (request oracle of the params skeleton).",
    "DESIGN.md §5 C13",
)
claim(
    "C14",
    "CrossHair symbolic execution (z3) of regenerated enum/const decoding with candidates from member+near-miss pools, and of the real enum builders with pooled value lists",
    "For every enum/const property of the enum skeleton under both enum styles: decoding succeeds iff the candidate is listed (same JSON type), re-encodes to itself; a null member makes the property nullable; the builders never merge two listed values silently (modulo known finding C14-F1) and store every value verbatim.",
    "Candidates and enum value lists come from pools (incl. values that spell the positional member name of a later value, unions of several constants, constants next to an explicit type); document shape bounded by the enum skeleton.",
    "DESIGN.md §5 C14",
)
claim(
    "C15",
    "CrossHair symbolic execution (z3) of the real merge_properties over all 16x16 ordered kind pairs with symbolic required/default flags; regenerated allOf models",
    "For every ordered pair of the 16 representative kinds and every flag combination merge(a,b) and merge(b,a) are both errors or both the documented narrowest kind with required = a or b; the later default is re-converted against the merged type; composed skeleton models (chains, two parents, parent declared after child) round-trip for all instances.",
    "16 representative kinds + 6 enum value-list pairs (coinciding member names with other values, subsets, disjoint); merge_properties must leave its arguments unchanged; model/union members are outside merge_properties; declaration orders 6 of 120 in the quick tier.",
    "DESIGN.md §5 C15",
)
claim(
    "C17",
    "CrossHair symbolic execution (z3) of the in-code normalisations (Schema.handle_nullable, enum-with-null rewrite, single-reference wrapper passthrough) comparing the resulting property trees",
    "For every pooled base schema and required flag the 3.0 `nullable` spelling, the 3.1 type list and the null union member build the same property description; enum-with-null equals the explicit union under both enum styles; single-element allOf/oneOf/anyOf wrappers share the referenced class. JSON-vs-YAML and path-vs-URL are NOT solver-decided (listed in level_note).",
    "JSON-vs-YAML (block and flow style) byte identity is only compared by the concrete replay oracle (the loaders are C code); file-vs-URL is not covered at all (no network, httpx); union member order is not part of any rewrite.",
    "DESIGN.md §5 C17",
)

claim(
    "C01",
    "decided through its mechanisms: bounded symbolic strings (QF_BV, z3) for every identifier kernel; z3 on guard formulas extracted from model.py.jinja (declaration/emission partitions); CrossHair (z3) on the removal cascade and on scope-level name resolution",
    "Names: every derived identifier is a valid non-keyword identifier for all strings within K (modulo recorded classes); templates: each attribute is declared exactly once, attributes without default first, each key written exactly once (valid for all 4 valuations of the extracted guard variables); imports: after any failing subset of any 3-node dependency graph no surviving class depends on a removed one; resolved names within a scope are distinct identifiers. Whole packages of the skeleton family are compiled and imported for every metadata flavour as a replay gate.",
    "The package-level compile/import/tomllib run is a concrete replay gate over the skeleton family x configurations, not a solver verdict; literal/default validity is decided under C05/C13; shapes outside the family are outside the claim.",
    "DESIGN.md §5 C01",
)
claim(
    "C16",
    "CrossHair symbolic execution (z3): differential by common oracle — clients regenerated under each behaviour-preserving option satisfy the same document-derived round-trip/request/response oracles for all symbolic inputs; real parser functions for tag placement, content-type overrides, class overrides, default post-hooks",
    "field_prefix, use_path_prefixes_for_title_model_names=false, docstrings_on_attributes, literal_enums and class_overrides leave wire behaviour identical (same oracle as without the option, all inputs within bounds); generate_all_tags places the same endpoint object under every tag and Project.build writes, under each tag directory, the module of exactly that operation; an overridden media type is classified as its target and still sent as itself; class_overrides only rename.",
    "'metadata flavour, file encoding, custom template directory and post-hook list affect only the files they are documented to affect' is NOT solver-decided: file-tree relation, exercised only by the replay oracle (meta flavours add only metadata files, version/name overrides, generate_all_tags module identity).",
    "DESIGN.md §5 C16",
)
claim(
    "C18",
    "candidate names computed from the AST of the regenerated modules; for each candidate used as property/parameter name the regenerated client is checked by CrossHair (z3) against the same document-derived oracles as a neutral name",
    "For every identifier the generated model/endpoint modules themselves use (locals, arguments, attributes, methods, imports, keywords; ~90 per scope, recomputed from the current templates) the client generated with that name behaves like the neutral one for all symbolic instances/arguments, except the recorded capturing names (known findings C18-F1/F2), each excused only for the conditions (= locations) recorded as failing on the pinned tree; any new capturing name, or a recorded name capturing somewhere else, is reported.",
    "One document shape per scope (model with union/int/date/str/list-of-model properties; five operations that put the candidate into the query, header, cookie and path location one at a time, with and without a JSON body); the differential is by common oracle, not by comparing two programs.",
    "DESIGN.md §5 C18",
)
claim(
    "C19",
    "bounded symbolic strings (QF_BV, z3) for every path component the generator derives; CrossHair (z3) on the existing-directory guard of Project.build",
    "For every title/tag/operation/schema name within K over Sigma (which contains '/', '\\', '.', NUL) the derived directory, package, tag, module and file names contain no separator, dot or NUL and are non-empty (unsat without any assumed-away class); without overwrite an existing directory makes build() return one error before any write step, with overwrite all steps run.",
    "Histories (sequences of generate commands over two documents, overwrite on/off, user files, 2-4 metadata flavours) are replayed concretely against scratch directories (finite choice set); OS faults outside the claim; the naming expressions of Project.__init__ are isolated as functions whose text is checked against the real source.",
    "DESIGN.md §5 C19",
)

ALL = [f"C{i:02d}" for i in range(1, 21)]


def main() -> None:
    checks = []
    for pid in ALL:
        if pid not in CLAIMED:
            continue
        tech, text, note, ref = CLAIMED[pid]
        checks.append(
            {
                "property_id": pid,
                "quick_cmd": f"./check {pid} --tier quick",
                "thorough_cmd": f"./check {pid} --tier thorough",
                "evidence_file": f"/verif/evidence/{pid}.json",
                "replay_cmd_template": f"./check {pid} --replay {{path}}",
                "engine": "solver",
                "level_claimed": {"category": "model_checking", "text": text, "design_ref": ref},
                "level_note": note,
                "technique": tech,
            }
        )
    na = [{"property_id": pid, "reason": NOT_YET.get(pid, "no solver obligation is wired for this property yet in this round; see DESIGN.md §5 for the planned decision procedure")} for pid in ALL if pid not in CLAIMED]
    manifest = {
        "version": 1,
        "setup_cmd": "./setup.sh",
        "hooks": {
            "guard": "OPENAPI_PYTHON_CLIENT_VERIF",
            "enable": "no hooks are compiled into /repo: the checks import /repo's working tree directly (editable install) and regenerate every encoding from its current source",
            "baseline_off_cmd": "cd /repo && /venv/bin/python -m pytest -ra -q -p no:cacheprovider --timeout=900 --continue-on-collection-errors",
            "source_commits": [],
            "add_only": True,
        },
        "engines": [
            {"name": "E1-bstr", "path": "vlib/bstr", "serves_properties": ["C01", "C05", "C07", "C09", "C13", "C14", "C18", "C19"], "kind_free_text": "symbolic interpreter over the AST of the real string kernels, bounded strings as QF_BV, z3"},
            {"name": "E2-crosshair-generator", "path": "vlib/xh.py + harness/", "serves_properties": ["C03", "C04", "C06", "C07", "C08", "C10", "C12", "C13", "C15", "C16", "C17", "C20"], "kind_free_text": "CrossHair (z3) on real generator functions with symbolic leaves and stubs"},
            {"name": "E3-crosshair-generated", "path": "vlib/skeletons + vlib/e3.py", "serves_properties": ["C02", "C03", "C04", "C10", "C11", "C14", "C18"], "kind_free_text": "CrossHair on client code regenerated from the current templates, schema-directed harnesses"},
            {"name": "E4-z3-models", "path": "vlib/lexers.py, vlib/jinja_guards.py", "serves_properties": ["C01", "C05", "C10"], "kind_free_text": "literal-context lexers and Jinja guard partitions as z3 formulas extracted from source"},
        ],
        "checks": checks,
        "not_applicable": na,
        "notes": "All checks: exit 0 = held on everything explored (known findings printed as KNOWN-FINDING lines), 1 = VIOLATION (replayed on the real code), 3 = harness error (translator mismatch, vacuity, non-reproducing witness).",
    }
    (VERIF / "MANIFEST.json").write_text(json.dumps(manifest, indent=1) + "\n")
    print(f"MANIFEST.json: {len(checks)} checks, {len(na)} not_applicable")


if __name__ == "__main__":
    main()
