"""E4: literal-context lexers as z3 predicates over BStr — oracles for CPython's tokenizer and for TOML basic strings.

Each lexer answers, for the text placed between the delimiters of one lexical context, (safe, decoded):
  safe     the surrounding literal is exactly one token and the file still tokenises,
  decoded  the run-time value of the literal (only for the escape sequences the kernels can produce: \\\\ \\" \\';
           any other escape sets `complex`, which an obligation must treat as "not decided").
They are *models of the consumer* (CPython / tomllib), not repo code, and are validated on every run against the real
`compile()` / `tomllib.loads` on all strings of length <= 3 over a hostile alphabet, comparing the decoded constant
(not merely "it compiles").
"""
from __future__ import annotations

import ast
import itertools
import tomllib
import warnings

import z3

from .bstr import core
from .bstr.core import FALSE, BStr, C, bv, inb, lv, pred

HOSTILE = ['"', "'", "\\", "{", "}", "#", "\n", "\r", "\0", "a", "0", "x", "n", " ", "u", "N"]
P_TOML_CTRL = pred(lambda c: (ord(c) < 0x20 and c != "\t") or ord(c) == 0x7F)
P_SIMPLE_ESC = pred(lambda c: c in "\"'\\")


def _scan(body: BStr, quote: str, multiline: bool, triple: bool):
    """Common automaton.  Returns (bad, esc_at[i], complex)."""
    esc = FALSE
    bad = FALSE
    cplx = FALSE
    esc_at = []
    run = z3.BitVecVal(0, 2)  # consecutive unescaped quote characters (triple-quoted contexts)
    q = C(quote)
    for i in range(body.cap):
        here, c = inb(body, i), body.ch[i]
        esc_at.append(z3.And(here, esc))
        is_bs = c == C("\\")
        bad = z3.Or(bad, z3.And(here, c == C("\0")))
        if not multiline:
            bad = z3.Or(bad, z3.And(here, z3.Not(esc), z3.Or(c == C("\n"), c == C("\r"))))
        unesc_q = z3.And(here, z3.Not(esc), c == q)
        if triple:
            run = z3.If(unesc_q, run + 1, z3.If(here, z3.BitVecVal(0, 2), run))
            bad = z3.Or(bad, run == 3)
        else:
            bad = z3.Or(bad, unesc_q)
        cplx = z3.Or(cplx, z3.And(here, esc, z3.Not(P_SIMPLE_ESC(c))))
        esc = z3.If(here, z3.And(z3.Not(esc), is_bs), esc)
    bad = z3.Or(bad, esc)  # a trailing backslash would swallow the closing delimiter
    return bad, esc_at, cplx


def py_string(body: BStr, quote: str = '"'):
    """Text between the quotes of a single-line, non-raw, non-f Python string literal."""
    bad, esc_at, cplx = _scan(body, quote, multiline=False, triple=False)
    # decoded: drop every escaping backslash (position i is an escaping backslash iff it is '\\' and not itself escaped)
    drop = []
    for i in range(body.cap):
        drop.append(z3.And(inb(body, i), body.ch[i] == C("\\"), z3.Not(esc_at[i])))
    return z3.Not(bad), core.remove_chars(body, drop), cplx


def py_docstring(content: BStr, raw):
    # triple-double-quoted docstring around " <content> ", raw (r-prefixed) or not as chosen by `raw` — this is
    # helpers.jinja safe_docstring.  In both forms a backslash prevents the following quote from terminating.
    return py_triple_body(core.concat([" ", content, " "]), raw)


def py_triple_body(body: BStr, raw):
    """Everything between the opening and the closing triple double quote of a (raw or plain) string literal."""
    bad, esc_at, cplx = _scan(body, '"', multiline=True, triple=True)
    # non-raw: unknown escapes (\\x.. etc.) may be syntax errors -> complex; raw: nothing is interpreted
    return z3.Not(bad), z3.And(z3.Not(raw), cplx)


def toml_basic(body: BStr):
    """Text between the quotes of a TOML basic string."""
    bad, esc_at, cplx = _scan(body, '"', multiline=False, triple=False)
    ctrl = z3.Or([z3.And(inb(body, i), P_TOML_CTRL(body.ch[i])) for i in range(body.cap)]) if body.cap else FALSE
    # TOML only knows \\b \\t \\n \\f \\r \\" \\\\ \\uXXXX \\UXXXXXXXX: \\' is an error there
    bad_esc = z3.Or([z3.And(esc_at[i], body.ch[i] == C("'")) for i in range(body.cap)]) if body.cap else FALSE
    drop = [z3.And(inb(body, i), body.ch[i] == C("\\"), z3.Not(esc_at[i])) for i in range(body.cap)]
    return z3.And(z3.Not(bad), z3.Not(ctrl), z3.Not(bad_esc)), core.remove_chars(body, drop), cplx


# ------------------------------------------------------------------------------------------------ real consumers
def real_py_string(body: str, quote: str = '"'):
    """(safe, decoded).  "Compiles" is not enough: `"#` gives `x = ""#"` which compiles with the payload in a comment.
    The literal must also *contain* the whole text: appending a sentinel character must extend the decoded value."""
    ok, val = _real_py_string1(body, quote)
    if not ok:
        return False, None
    ok2, val2 = _real_py_string1(body + "Z", quote)
    if not ok2 or val2 != val + "Z":
        return False, None
    return True, val


def _real_py_string1(body: str, quote: str = '"'):
    src = "x = " + quote + body + quote + "\n"
    with warnings.catch_warnings():
        warnings.simplefilter("ignore")
        try:
            tree = compile(src, "t", "exec", flags=ast.PyCF_ONLY_AST)
        except (SyntaxError, ValueError):
            return False, None
    if len(tree.body) == 1 and isinstance(tree.body[0], ast.Assign) and isinstance(tree.body[0].value, ast.Constant) and isinstance(tree.body[0].value.value, str):
        import io
        import tokenize

        try:
            n_str = sum(1 for t in tokenize.generate_tokens(io.StringIO(src).readline) if t.type == tokenize.STRING)
        except (tokenize.TokenError, IndentationError):
            return False, None
        if n_str == 1:  # implicit concatenation ("" "x") is not one literal
            return True, tree.body[0].value.value
    return False, None


def real_py_docstring(content: str, raw: bool):
    a, b = _real_doc1(content, raw), _real_doc1(content + "Z", raw)
    return a is not None and b is not None and b == a[:-1] + "Z "


def _real_doc1(content: str, raw: bool):
    src = ("r" if raw else "") + '""" ' + content + ' """\n'
    with warnings.catch_warnings():
        warnings.simplefilter("ignore")
        try:
            tree = compile(src, "t", "exec", flags=ast.PyCF_ONLY_AST)
        except (SyntaxError, ValueError):
            return None
    if len(tree.body) == 1 and isinstance(tree.body[0], ast.Expr) and isinstance(tree.body[0].value, ast.Constant) and isinstance(tree.body[0].value.value, str):
        import io
        import tokenize

        try:
            n_str = sum(1 for t in tokenize.generate_tokens(io.StringIO(src).readline) if t.type == tokenize.STRING)
        except (tokenize.TokenError, IndentationError):
            return None
        if n_str == 1:  # `""" """" """` compiles as three implicitly concatenated literals: the text left the docstring
            return tree.body[0].value.value
    return None


def real_toml_basic(body: str):
    ok, val = _real_toml1(body)
    if not ok:
        return False, None
    ok2, val2 = _real_toml1(body + "Z")
    if not ok2 or val2 != val + "Z":
        return False, None
    return True, val


def _real_toml1(body: str):
    try:
        d = tomllib.loads('x = "' + body + '"\n')
    except Exception:
        return False, None
    if list(d) == ["x"] and isinstance(d["x"], str):
        return True, d["x"]
    return False, None


def validate(max_len: int = 3) -> dict:
    """Exhaustive comparison of the lexer models with CPython / tomllib on short hostile strings."""
    from .bstr.validate import Evaluator

    v, _ = core.sym_input(max_len, "lv")
    s_dq, d_dq, c_dq = py_string(v, '"')
    s_sq, d_sq, c_sq = py_string(v, "'")
    raw = z3.Bool("lex_raw")
    s_doc, c_doc = py_docstring(v, raw)
    s_tm, d_tm, c_tm = toml_basic(v)
    ev = Evaluator([v])
    mism, total = [], 0
    for n in range(max_len + 1):
        for tup in itertools.product(HOSTILE, repeat=n):
            t = "".join(tup)
            total += 1
            ev.s.push()
            ev.s.add(raw == ("\\" in t))
            got = ev.run([t], [s_dq, d_dq, c_dq, s_sq, d_sq, c_sq, s_doc, c_doc, s_tm, d_tm, c_tm])
            ev.s.pop()
            rs, rd = real_py_string(t, '"')
            if not got[2] and (got[0] != rs or (rs and got[1] != rd)):
                mism.append(("dq", t, got[:3], rs, rd))
            rs, rd = real_py_string(t, "'")
            if not got[5] and (got[3] != rs or (rs and got[4] != rd)):
                mism.append(("sq", t, got[3:6], rs, rd))
            rdoc = real_py_docstring(t, "\\" in t)
            if not got[7] and got[6] != rdoc:
                mism.append(("doc", t, got[6:8], rdoc))
            rs, rd = real_toml_basic(t)
            if not got[10] and (got[8] != rs or (rs and got[9] != rd)):
                mism.append(("toml", t, got[8:11], rs, rd))
    return {"strings": total, "mismatches": len(mism), "examples": mism[:6]}
