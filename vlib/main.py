"""./check <Cnn> [--tier quick|thorough] [--only SUBSTR] [--list] [--replay PATH] [--jobs N]

Runs every obligation of a property in its own subprocess (16 worker slots), classifies what came back
against known_findings.json, writes evidence/<Cnn>.json and exits 0 / 1 (VIOLATION) / 3 (harness error).
"""
from __future__ import annotations

import argparse
import importlib
import json
import os
import subprocess
import sys
import tempfile
import threading
import time
from pathlib import Path

from .common import (
    EVIDENCE,
    EXIT_HARNESS,
    EXIT_OK,
    EXIT_VIOLATION,
    VERIF,
    Ob,
    jsonable,
    load_known,
    result,
    seed,
    write_replay,
)


def run_ob(ob: Ob, tier: str, known: list[dict], scratch: Path) -> dict:
    params = dict(ob.params)
    params.setdefault("tier", tier)
    params["known"] = [e for e in known if e.get("obligation") in (ob.name, ob.params.get("known_key", ob.name))]
    pj = scratch / f"{abs(hash(ob.name))}-{time.time_ns()}.params.json"
    oj = pj.with_suffix(".out.json")
    pj.write_text(json.dumps(params))
    t0 = time.time()
    env = dict(os.environ)
    env["PYTHONPATH"] = str(VERIF) + (":" + env["PYTHONPATH"] if env.get("PYTHONPATH") else "")
    try:
        p = subprocess.run(
            [sys.executable, "-m", "vlib.run_one", ob.func, str(pj), str(oj)],
            cwd=str(VERIF),
            env=env,
            capture_output=True,
            text=True,
            timeout=ob.timeout_s,
        )
        if oj.exists():
            res = json.loads(oj.read_text())
            if p.returncode != 0 and res.get("status") != "error":
                res["detail"] += f" [exit {p.returncode}]"
        else:
            res = result("error", f"obligation process died (exit {p.returncode}): {p.stderr[-2000:]}")
    except subprocess.TimeoutExpired:
        res = result("inconclusive", f"timeout after {ob.timeout_s}s (hard limit of the obligation process)")
    res.setdefault("wall_s", round(time.time() - t0, 2))
    res["name"] = ob.name
    res["engine"] = ob.engine
    res["must"] = ob.must
    for f in (pj, oj):
        try:
            f.unlink()
        except OSError:
            pass
    return res


def run_all(obs: list[Ob], tier: str, known: list[dict], jobs: int) -> list[dict]:
    scratch = Path(tempfile.mkdtemp(prefix="verif-run-"))
    results: list[dict | None] = [None] * len(obs)
    slots = threading.Semaphore(jobs)
    lock = threading.Lock()
    free = [jobs]
    cond = threading.Condition(lock)

    def worker(i: int, ob: Ob) -> None:
        need = min(ob.cpus, jobs)
        with cond:
            while free[0] < need:
                cond.wait()
            free[0] -= need
        try:
            results[i] = run_ob(ob, tier, known, scratch)
        finally:
            with cond:
                free[0] += need
                cond.notify_all()
        r = results[i]
        print(f"  [{r['status']:>12}] {ob.name}  ({r.get('wall_s', 0)}s) {r['detail'][:160]}", flush=True)

    # longest first so that the tail is short
    order = sorted(range(len(obs)), key=lambda i: -obs[i].timeout_s)
    threads = [threading.Thread(target=worker, args=(i, obs[i])) for i in order]
    for t in threads:
        t.start()
    for t in threads:
        t.join()
    try:
        for f in scratch.iterdir():
            f.unlink()
        scratch.rmdir()
    except OSError:
        pass
    del slots
    return [r for r in results if r is not None]


def main() -> int:
    ap = argparse.ArgumentParser()
    ap.add_argument("prop")
    ap.add_argument("--tier", default=os.environ.get("VERIF_TIER", "quick"), choices=["quick", "thorough"])
    ap.add_argument("--only", default=None)
    ap.add_argument("--list", action="store_true")
    ap.add_argument("--replay", default=None)
    ap.add_argument("--jobs", type=int, default=int(os.environ.get("VERIF_JOBS", "16")))
    ap.add_argument("--no-evidence", action="store_true")
    args = ap.parse_args()
    prop = args.prop.upper()
    mod = importlib.import_module(f"vlib.props.{prop}")

    if args.replay:
        payload = json.loads(Path(args.replay).read_text())
        modname, fname = payload["replay_func"].split(":")
        fn = getattr(importlib.import_module(modname), fname)
        out = fn(payload["witness"])
        print(json.dumps(jsonable(out), indent=1))
        if out.get("reproduced"):
            print(f"VIOLATION property={prop} replay={args.replay}")
            return EXIT_VIOLATION
        print("replay does not reproduce on this tree")
        return EXIT_OK

    t0 = time.time()
    obs: list[Ob] = mod.obligations(args.tier)
    if args.only:
        obs = [o for o in obs if args.only in o.name]
    if args.list:
        for o in obs:
            print(f"{o.name:60} {o.engine} {o.func} timeout={o.timeout_s}s must={o.must}")
        return 0
    known = load_known(prop)
    print(f"== {prop} tier={args.tier} obligations={len(obs)} known_findings={len(known)} jobs={args.jobs}", flush=True)
    results = run_all(obs, args.tier, known, args.jobs)

    # ---- classify
    known_by_id = {e["id"]: e for e in known}
    hits: dict[str, dict] = {}
    violations: list[tuple[str, dict]] = []
    harness_errors: list[str] = []
    inconclusive: list[str] = []
    for r in results:
        for kid in r.get("known_hits", []):
            if kid in known_by_id:
                hits[kid] = known_by_id[kid]
            else:
                harness_errors.append(f"{r['name']}: reports unknown finding id {kid}")
        for w in r.get("witnesses", []):
            if w.get("reproduced"):
                violations.append((r["name"], w))
            else:
                harness_errors.append(f"{r['name']}: solver witness does not reproduce on the real code: {str(w)[:300]}")
        if r["status"] == "error":
            harness_errors.append(f"{r['name']}: {r['detail'][:600]}")
        elif r["status"] == "inconclusive":
            inconclusive.append(r["name"])
        elif r.get("inconclusive_conditions"):
            # some conditions of this obligation were decided (a finding, a violation), others timed out: say so
            inconclusive.append(f"{r['name']} [{', '.join(r['inconclusive_conditions'][:4])}]")
        elif r["status"] == "violated" and not r.get("witnesses") and not r.get("known_hits"):
            harness_errors.append(f"{r['name']}: 'violated' without a witness")
        if r["status"] == "holds" and not r.get("nontrivial", True):
            harness_errors.append(f"{r['name']}: vacuous (reachability twin failed)")

    for kid, e in sorted(hits.items()):
        print(f"KNOWN-FINDING: property={prop} {kid}: {e['what']}")
    vio_lines = []
    for i, (obname, w) in enumerate(violations):
        payload = {
            "property": prop,
            "obligation": obname,
            "replay_func": w.get("replay_func", f"vlib.props.{prop}:replay"),
            "witness": w,
        }
        path = write_replay(prop, obname, i, payload)
        line = f"VIOLATION property={prop} replay={path}"
        vio_lines.append(line)
        print(f"  violation in {obname}: {str(w.get('what', ''))[:300]}")
        print(f"    input={str(w.get('input'))[:300]} observed={str(w.get('observed'))[:300]}")
        print(line)
    for h in harness_errors:
        print(f"HARNESS-ERROR: {h}")
    for n in inconclusive:
        print(f"INCONCLUSIVE: {n}")

    # ---- evidence
    discharged = [r for r in results if r["status"] in ("holds", "violated") and r.get("nontrivial", True)]
    samples = []
    for r in results:
        for s in r.get("samples", [])[:2]:
            samples.append({"obligation": r["name"], "sample": s})
    if not samples:
        samples = [{"obligation": r["name"], "status": r["status"], "detail": r["detail"][:200]} for r in results[:3]]
    meta = getattr(mod, "META", {})
    functions = sorted({f for r in results for f in r.get("functions", [])})
    stubs = sorted({s for r in results for s in r.get("stubs", [])})
    ev = {
        "property_id": prop,
        "tier": args.tier,
        "seed": seed(),
        "level": meta.get("level", "model_checking"),
        "coverage": {
            "evaluations": int(sum(r.get("queries", 0) for r in results)),
            "distinct_nontrivial": len({f"{r['name']}::{c}" for r in discharged for c in (r.get("cases") or [r["name"]])}),
            "rule": meta.get(
                "rule",
                "one case = one obligation (a solver query or CrossHair condition over symbolic inputs inside the "
                "stated bounds); evaluations = solver queries / CrossHair conditions issued; an obligation counts as "
                "distinct and non-trivial when its verdict is conclusive (unsat / sat+replayed / confirmed over all "
                "paths) and its reachability twin was satisfiable",
            ),
            "samples": samples[:12],
            "obligations": len(results),
            "discharged": len(discharged),
            "inconclusive": inconclusive,
            "solver_s": round(sum(r.get("solver_s", 0.0) for r in results), 2),
            "explanation": meta.get("explanation", ""),
            "exhaustive": False,
            "functions_encoded": functions,
            "stubs": stubs,
            "per_obligation": [
                {
                    "name": r["name"],
                    "engine": r.get("engine"),
                    "status": r["status"],
                    "queries": r.get("queries", 0),
                    "solver_s": r.get("solver_s", 0.0),
                    "wall_s": r.get("wall_s", 0.0),
                    "bounds": r.get("bounds", {}),
                    "detail": r["detail"][:300],
                    "known_hits": r.get("known_hits", []),
                }
                for r in results
            ],
            "known_findings_reproduced": sorted(hits),
            "checker_cmd": f"./check {prop} --tier {args.tier}",
            "trusted_base": meta.get("trusted_base", ["z3 5.1.0", "CrossHair 0.0.110", "CPython 3.12 str/re semantics as modelled and validated"]),
        },
        "assumptions": meta.get("assumptions", []) + stubs,
        "wall_s": round(time.time() - t0, 2),
        "violations": len(violations),
    }
    if not args.no_evidence and not args.only:
        EVIDENCE.mkdir(exist_ok=True)
        (EVIDENCE / f"{prop}.json").write_text(json.dumps(jsonable(ev), indent=1, ensure_ascii=True))
    print(
        f"== {prop}: obligations={len(results)} discharged={len(discharged)} inconclusive={len(inconclusive)} "
        f"known={len(hits)} violations={len(violations)} harness_errors={len(harness_errors)} wall={ev['wall_s']}s",
        flush=True,
    )
    if violations:
        return EXIT_VIOLATION
    if harness_errors:
        return EXIT_HARNESS
    return EXIT_OK


if __name__ == "__main__":
    sys.exit(main())
