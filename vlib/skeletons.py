"""The skeleton family: the stated bound on document *shape* (DESIGN.md §4.2).

Small documents organised as a basis: every property kind x required/optional x nullable style x position.
Every wire name differs from its Python name so that name/python_name confusions are observable.
"""
from __future__ import annotations

from typing import Any


def doc(schemas: dict | None = None, paths: dict | None = None, version: str = "3.1.0", **components: Any) -> dict:
    d: dict = {"openapi": version, "info": {"title": "Skel API", "version": "1.0"}, "paths": paths or {}}
    comps = dict(components)
    if schemas:
        comps["schemas"] = schemas
    if comps:
        d["components"] = comps
    return d


def obj(props: dict, required: list | None = None, **kw: Any) -> dict:
    o: dict = {"type": "object", "properties": props}
    if required:
        o["required"] = required
    o.update(kw)
    return o


def ref(name: str) -> dict:
    return {"$ref": f"#/components/schemas/{name}"}


STR, INT, NUM, BOOL = {"type": "string"}, {"type": "integer"}, {"type": "number"}, {"type": "boolean"}
DATE, DT, UUID = {"type": "string", "format": "date"}, {"type": "string", "format": "date-time"}, {"type": "string", "format": "uuid"}


def arr(items: Any) -> dict:
    return {"type": "array", "items": items}


def model_skeletons() -> dict[str, dict]:
    """Models are kept small (<= 4 varying properties) so that CrossHair exhausts every presence/branch combination."""
    S: dict[str, dict] = {}
    leaf = obj({"leaf-id": INT, "tag": STR}, ["leaf-id"])
    S["scalars"] = doc(
        {
            "ScalarsReq": obj({"an-int": INT, "aNumber": NUM, "a.str": STR, "A Bool": BOOL}, ["an-int", "aNumber", "a.str", "A Bool"]),
            "ScalarsOpt": obj({"an-int": INT, "aNumber": NUM, "a.str": STR, "A Bool": BOOL}, additionalProperties=False),
            "FormatsReq": obj({"the-date": DATE, "theDateTime": DT, "the.uuid": UUID}, ["the-date", "theDateTime", "the.uuid"]),
            "FormatsOpt": obj({"optDate": DATE, "optDT": DT, "optUuid": UUID}),
            "Mixed": obj({"req-int": INT, "opt-str": STR, "reqStr": STR, "optBool": BOOL, "unknownFormat": {"type": "string", "format": "email"}}, ["req-int", "reqStr"]),
        }
    )
    S["nullable31"] = doc(
        {
            "NullStr": obj({"req-ns": {"type": ["string", "null"]}, "opt-ns": {"type": ["string", "null"]}, "only-null": {"type": "null"}}, ["req-ns"]),
            "NullInt": obj({"reqNullInt": {"oneOf": [INT, {"type": "null"}]}, "optNullInt": {"anyOf": [{"type": "null"}, INT]}, "opt-null-date": {"oneOf": [DATE, {"type": "null"}]}}, ["reqNullInt"]),
            "NullConst": obj({"req-nc": {"oneOf": [{"const": "fixed"}, {"type": "null"}]}, "opt-nc": {"anyOf": [{"type": "null"}, {"const": 7}]}, "optNullBool": {"type": ["boolean", "null"]}}, ["req-nc"], additionalProperties=False),
            "NullableRefs": obj(
                {"req-m": {"oneOf": [ref("Leaf"), {"type": "null"}]}, "opt-m": {"oneOf": [{"type": "null"}, ref("Leaf")]}, "opt-l": {"type": ["array", "null"], "items": INT}},
                ["req-m"],
                additionalProperties=False,
            ),
            "Leaf": obj({"leaf-id": INT}, ["leaf-id"]),
        }
    )
    S["nullable30"] = doc(
        {
            "NullStr": obj({"req-ns": {"type": "string", "nullable": True}, "opt-ns": {"type": "string", "nullable": True}}, ["req-ns"]),
            "NullInt": obj({"reqNullInt": {"type": "integer", "nullable": True}, "opt-null-date": {"type": "string", "format": "date", "nullable": True}}, ["reqNullInt"]),
            "NullableRefs": obj({"opt-m": {"nullable": True, "allOf": [ref("Leaf")]}, "opt-l": {"type": "array", "nullable": True, "items": INT}}, additionalProperties=False),
            "Leaf": obj({"leaf-id": INT}, ["leaf-id"]),
        },
        version="3.0.3",
    )
    S["enums"] = doc(
        {
            "StrChoice": {"type": "string", "enum": ["a", "b c", "1st", "", "Ünï"]},
            "IntChoice": {"type": "integer", "enum": [-4, 0, 2]},
            "HolderA": obj({"req-e": ref("StrChoice"), "optE": ref("StrChoice"), "int.e": ref("IntChoice")}, ["req-e"]),
            "HolderB": obj({"inlineEnum": {"type": "string", "enum": ["x", "y"]}, "nullEnum": {"type": ["string", "null"], "enum": ["p", "q", None]}, "const-s": {"const": "fixed"}, "constI": {"const": 7}}, ["const-s"]),
            "HolderF": obj({"zero": {"const": 0}, "empty-s": {"const": ""}, "zeroF": {"const": 0.0}, "no": {"const": False}, "opt-null-zero": {"oneOf": [{"const": 0}, {"type": "null"}]}}, ["zero", "empty-s"], additionalProperties=False),
            # two inline enums that share one generated class (same title, same values) but not their requiredness
            "HolderG": obj({"billing-c": {"title": "Country", "type": "string", "enum": ["de", "fr"]}, "shippingC": {"title": "Country", "type": "string", "enum": ["de", "fr"]}, "thirdC": {"title": "Country", "type": "string", "enum": ["de", "fr"], "default": "fr"}}, ["billing-c"], additionalProperties=False),
            # several constants in one union; constants next to an explicit type (the boolean one used to be ignored)
            "HolderH": obj({"ab": {"oneOf": [{"const": "a"}, {"const": "b"}]}, "yes": {"type": "boolean", "const": True}, "typedS": {"type": "string", "const": "s"}, "typedI": {"type": "integer", "const": 5}, "opt-12-null": {"oneOf": [{"const": 1}, {"const": 2}, {"type": "null"}]}}, ["ab"], additionalProperties=False),
            "Type": {"type": "string", "enum": ["t1", "t2"]},
            "Format": {"type": "integer", "enum": [1, 2]},
            "HolderE": obj({"the-type": ref("Type"), "fmt": ref("Format"), "type-list": arr(ref("Type"))}, additionalProperties=False),
            "HolderD": obj({"null-int-e": {"enum": [1, 2, None]}, "intE-or-str": {"oneOf": [ref("IntChoice"), STR]}, "opt-null-ref": {"oneOf": [{"type": "null"}, ref("IntChoice")]}}, additionalProperties=False),
            "HolderC": obj({"e-list": arr(ref("StrChoice")), "req-el": arr(ref("IntChoice"))}, ["req-el"], additionalProperties=False),
        }
    )
    S["nested"] = doc(
        {
            "Leaf": leaf,
            "OuterA": obj({"req-leaf": ref("Leaf"), "optLeaf": ref("Leaf"), "inline-obj": obj({"in-x": INT, "inY": STR}, ["in-x"])}, ["req-leaf"], additionalProperties=False),
            # an inline object that carries a title (class named after the title when use_path_prefixes_for_title_model_names is off)
            "OuterT": obj({"titled-obj": obj({"t-x": INT}, title="Inline Thing"), "plainObj": obj({"p-y": STR})}, additionalProperties=False),
            "OuterB": obj({"leaf-list": arr(ref("Leaf")), "optLeafList": arr(ref("Leaf"))}, ["leaf-list"], additionalProperties=False),
            "ListsA": obj({"ints": arr(INT), "opt-ints": arr(INT), "strs": arr(STR)}, ["ints"], additionalProperties=False),
            "ListsB": obj({"dates": arr(DATE), "optDates": arr(DATE)}, ["dates"], additionalProperties=False),
            "ListsC": obj({"matrix": arr(arr(INT)), "optUuids": arr(UUID)}, additionalProperties=False),
            "TuplesA": obj({"pair": {"type": "array", "prefixItems": [INT, BOOL]}, "single": {"type": "array", "prefixItems": [DATE]}}, additionalProperties=False),
            "TuplesB": obj({"head-rest": {"type": "array", "prefixItems": [ref("Leaf")], "items": INT}}, ["head-rest"], additionalProperties=False),
            "Tree": obj({"node-val": INT, "kids": arr(ref("Tree")), "parentRef": ref("Tree")}, ["node-val"], additionalProperties=False),
            "Registry": {"type": "object", "additionalProperties": obj({"r-leaf": ref("Leaf"), "rOuter": ref("OuterB"), "r.tree": ref("Tree"), "rPing": ref("Ping")})},
            "Ping": obj({"to-pong": ref("Pong"), "n": INT}),
            "Pong": obj({"toPing": ref("Ping"), "s": STR}),
        }
    )
    S["unions"] = doc(
        {
            "Cat": obj({"cat-name": STR, "lives": INT}, ["cat-name"]),
            "Dog": obj({"dogName": STR, "good": BOOL}, ["dogName"]),
            "UnionsA": obj({"int-or-str": {"oneOf": [INT, STR]}, "optIntOrStr": {"anyOf": [INT, STR]}, "typeList": {"type": ["integer", "string", "boolean"]}}, ["int-or-str"]),
            "UnionsB": obj({"pet": {"oneOf": [ref("Cat"), ref("Dog")]}, "optPet": {"oneOf": [ref("Cat"), ref("Dog"), {"type": "null"}]}}, ["pet"], additionalProperties=False),
            "UnionsC": obj({"pet-or-int": {"oneOf": [ref("Cat"), INT]}, "dateOrInt": {"anyOf": [DATE, INT]}, "str-or-pet": {"oneOf": [STR, ref("Dog")]}}, additionalProperties=False),
            # members told apart only by the *type* of a shared key (the earlier member's decoder must fail cleanly)
            "ResV2": obj({"id": UUID, "label": STR}, ["id"], additionalProperties=False),
            "ResV1": obj({"id": INT, "label": STR}, ["id"], additionalProperties=False),
            "ResV0": obj({"id": DATE, "label": STR}, ["id"], additionalProperties=False),
            "UnionsD": obj({"res": {"oneOf": [ref("ResV2"), ref("ResV0"), ref("ResV1")]}, "hist": arr({"oneOf": [ref("ResV2"), ref("ResV1")]})}, ["res"], additionalProperties=False),
            # one schema that uses two union keywords at once (member numbering runs across them)
            "UnionsE": obj({"both-kw": {"anyOf": [ref("Cat")], "oneOf": [ref("Dog"), INT]}, "optBoth": {"anyOf": [DATE, INT], "oneOf": [arr(UUID), BOOL]}}, ["both-kw"], additionalProperties=False),
            "UnionListsA": obj({"pets": arr({"oneOf": [ref("Cat"), ref("Dog")]})}, ["pets"], additionalProperties=False),
            "UnionListsB": obj({"list-or-int": {"oneOf": [arr(INT), INT]}, "optMixed": arr({"oneOf": [INT, STR]})}, additionalProperties=False),
        }
    )
    S["additional"] = doc(
        {
            "Leaf": obj({"leaf-id": INT}, ["leaf-id"]),
            "FreeForm": obj({"known-a": INT}),
            "ExplicitTrue": obj({"known-a": INT}, ["known-a"], additionalProperties=True),
            "Closed": obj({"known-a": INT, "optB": STR}, ["known-a"], additionalProperties=False),
            "TypedInt": obj({"known-a": STR}, additionalProperties=INT),
            "TypedModel": obj({"known-a": STR}, additionalProperties=ref("Leaf")),
            "TypedList": obj({}, additionalProperties=arr(STR)),
            "TypedUnion": obj({}, additionalProperties={"oneOf": [INT, ref("Leaf")]}),
            "TypedDate": obj({}, additionalProperties=DATE),
            "OnlyAdditional": {"type": "object", "additionalProperties": STR},
        }
    )
    S["allof"] = doc(
        {
            "Derived": {"allOf": [ref("Base"), obj({"derived-x": INT, "optD": STR}, ["derived-x"])]},
            "Base": obj({"base-id": INT, "baseOpt": STR, "shared": NUM}, ["base-id"]),
            "Grand": {"allOf": [ref("Derived"), obj({"grand.z": BOOL, "shared": INT}, ["shared"])]},
            "TwoParents": {"allOf": [ref("Base"), ref("Other")]},
            "Other": obj({"other-id": STR, "baseOpt": STR}, ["other-id", "baseOpt"]),
            "InlineOnly": {"allOf": [obj({"in-a": INT}, ["in-a"]), obj({"inB": STR})]},
            "ReqOnly": {"allOf": [obj({"ro-a": INT, "roB": STR}), {"required": ["ro-a"]}]},
            "ReqOfParent": {"allOf": [ref("Base"), {"required": ["baseOpt", "shared"]}]},
            "OwnProps": {"allOf": [ref("Other")], "properties": {"own-p": INT, "ownQ": STR}, "required": ["ownQ"]},
            # the member that requires the property gives it the broader type, a later member narrows it without repeating `required`
            "ReqBase": obj({"amount": NUM, "unit": STR, "when": STR}, ["amount", "when"]),
            "NarrowReq": {"allOf": [ref("ReqBase"), obj({"amount": INT, "when": DATE, "extra-n": STR})]},
            "EnumNarrow": {"allOf": [obj({"color": STR}), obj({"color": {"type": "string", "enum": ["red", "green"]}})]},
        }
    )
    S["defaults"] = doc(
        {
            "DefaultsA": obj({"def-int": {"type": "integer", "default": 3}, "defStr": {"type": "string", "default": "hello"}, "def.bool": {"type": "boolean", "default": True}, "defNum": {"type": "number", "default": 1.5}}),
            "DefaultsC": obj({"def-union": {"oneOf": [INT, STR], "default": "x"}, "defUnionInt": {"anyOf": [INT, BOOL], "default": 3}, "def-nullable": {"type": ["string", "null"], "default": "n"}, "defInlineEnumInt": {"type": "integer", "enum": [0, 1], "default": 0}}),
            "DefaultsB": obj(
                {"def-date": {"type": "string", "format": "date", "default": "2020-01-02"}, "defEnum": {"type": "string", "enum": ["a", "b"], "default": "b"}, "req-with-default": {"type": "integer", "default": 9}},
                ["req-with-default"],
            ),
        }
    )
    return S


def param(name: str, loc: str, schema: dict, required: bool = False) -> dict:
    p = {"name": name, "in": loc, "schema": schema}
    if required or loc == "path":
        p["required"] = True
    return p


def jresp(schema: Any, desc: str = "ok", ct: str = "application/json") -> dict:
    return {"description": desc, "content": {ct: {"schema": schema}}}


def endpoint_skeletons() -> dict[str, dict]:
    S: dict[str, dict] = {}
    leaf = obj({"leaf-id": INT, "tag": STR}, ["leaf-id"])
    color = {"type": "string", "enum": ["red", "dark blue"]}
    S["params"] = doc(
        {"Leaf": leaf, "Color": color, "Level": {"type": "integer", "enum": [1, 2, -3]}},
        {
            "/items/{item-id}/sub/{subId}": {
                "get": {
                    "operationId": "getItem",
                    "parameters": [
                        param("subId", "path", INT),
                        param("item-id", "path", STR),
                        param("q-str", "query", STR),
                        param("reqInt", "query", INT, True),
                        param("X-Tok", "header", STR),
                        param("sessionId", "cookie", STR),
                    ],
                    "responses": {"200": jresp(ref("Leaf"))},
                }
            },
            "/q/kinds": {
                "get": {
                    "operationId": "queryKinds",
                    "parameters": [
                        param("a-bool", "query", BOOL),
                        param("aNum", "query", NUM),
                        param("the.color", "query", ref("Color")),
                        param("from-date", "query", DATE),
                        param("nullable-s", "query", {"type": ["string", "null"]}),
                    ],
                    "responses": {"204": {"description": "none"}},
                }
            },
            "/q/lists": {
                "get": {
                    "operationId": "queryLists",
                    "parameters": [
                        param("str-list", "query", arr(STR)),
                        param("colorList", "query", arr(ref("Color")), True),
                        param("level", "query", ref("Level")),
                    ],
                    "responses": {"204": {"description": "none"}},
                }
            },
            "/h/kinds": {
                "post": {
                    "operationId": "headerKinds",
                    "parameters": [param("X-Int", "header", INT, True), param("X-Bool", "header", BOOL), param("X-Color", "header", ref("Color")), param("X-Num", "header", NUM)],
                    "responses": {"204": {"description": "none"}},
                }
            },
            "/c/kinds": {
                "post": {
                    "operationId": "cookieKinds",
                    "parameters": [param("c-int", "cookie", INT, True), param("cColor", "cookie", ref("Color")), param("c.str", "cookie", STR)],
                    "responses": {"204": {"description": "none"}},
                }
            },
            "/same/{name}": {
                "parameters": [param("name", "path", STR), param("shared-q", "query", STR), param("overridden", "query", STR)],
                "get": {
                    "operationId": "sameNames",
                    "parameters": [param("name", "query", STR), param("name", "header", STR), param("overridden", "query", INT)],
                    "security": [{"k": []}],
                    "responses": {"204": {"description": "none"}},
                },
                "delete": {"operationId": "pathItemOnly", "responses": {"204": {"description": "none"}}},
            },
            "/over/ride": {
                "parameters": [param("ver", "header", STR), param("keep-me", "query", STR), param("ver", "cookie", STR)],
                "get": {"operationId": "overrideOtherLocation", "parameters": [param("ver", "query", STR, True)], "responses": {"204": {"description": "none"}}},
                "post": {"operationId": "overrideSameLocation", "parameters": [param("ver", "header", INT, True)], "responses": {"204": {"description": "none"}}},
            },
            # raw parameter names that also occur as literal path text / as prefix of another placeholder
            "/types/{type}/userId/{userId}": {"get": {"operationId": "literalTwins", "parameters": [param("type", "path", STR), param("userId", "path", STR)], "responses": {"204": {"description": "none"}}}},
            "/pfx/{userId}/{userIdKind}": {"get": {"operationId": "prefixTwins", "parameters": [param("userId", "path", STR), param("userIdKind", "path", STR)], "responses": {"204": {"description": "none"}}}},
            # one enum class shared by an optional and a required parameter (same title, same values)
            "/q/shared-enum": {"get": {"operationId": "sharedEnum", "parameters": [param("thenBy", "query", {"title": "Order", "type": "string", "enum": ["asc", "desc"]}), param("orderBy", "query", {"title": "Order", "type": "string", "enum": ["asc", "desc"]}, True)], "responses": {"204": {"description": "none"}}}},
            # declared defaults in every location (C13 for parameters); a path parameter with a default *before* one without
            "/d/{dflt-id}/{plain-id}": {
                "get": {
                    "operationId": "pathDefaults",
                    "parameters": [param("dflt-id", "path", {"type": "integer", "default": 3}), param("plain-id", "path", STR), param("X-D", "header", {"type": "string", "default": "hv"}), param("c-d", "cookie", {"type": "integer", "default": 1})],
                    "responses": {"204": {"description": "none"}},
                }
            },
            "/d/kinds": {
                "get": {
                    "operationId": "defaultKinds",
                    "parameters": [
                        param("d-int", "query", {"type": "integer", "default": 5}),
                        param("dStr", "query", {"type": "string", "default": "hi"}),
                        param("d.bool", "query", {"type": "boolean", "default": True}),
                        param("dNum", "query", {"type": "number", "default": 1.5}),
                        param("reqD", "query", {"type": "integer", "default": 9}, True),
                    ],
                    "responses": {"204": {"description": "none"}},
                }
            },
            "/d/rich": {
                "get": {
                    "operationId": "defaultRich",
                    "parameters": [
                        param("d-date", "query", {"type": "string", "format": "date", "default": "2020-01-02"}),
                        param("dInline", "query", {"type": "string", "enum": ["x", "y"], "default": "y"}),
                        param("d.color", "query", {"allOf": [ref("Color")], "default": "red"}),
                        param("X-Lvl", "header", {"allOf": [ref("Level")], "default": 2}),
                        param("zero-d", "query", {"type": "integer", "default": 0}),
                    ],
                    "responses": {"204": {"description": "none"}},
                }
            },
            # no operationId: the function / module name is derived from method and path
            "/no/{op-id}/here": {"get": {"parameters": [param("op-id", "path", STR), param("flt", "query", INT)], "responses": {"204": {"description": "none"}}}, "post": {"parameters": [param("op-id", "path", STR)], "responses": {"204": {"description": "none"}}}},
            # union-typed parameters (each member has to be allowed in the location)
            "/q/unions": {"get": {"operationId": "queryUnions", "parameters": [param("int-or-str", "query", {"oneOf": [INT, STR]}), param("nullable-int", "query", {"type": ["integer", "null"]}, True)], "responses": {"204": {"description": "none"}}}},
            "/e/{color}/{level}": {
                "put": {
                    "operationId": "enumPath",
                    "parameters": [param("level", "path", ref("Level")), param("color", "path", ref("Color"))],
                    "responses": {"204": {"description": "none"}},
                }
            },
        },
    )
    S["bodies"] = doc(
        {"Leaf": leaf, "Form": obj({"f-a": STR, "fB": INT}, ["f-a"]), "Upload": obj({"up-file": {"type": "string", "format": "binary"}, "note": STR, "count": INT}, ["up-file"])},
        {
            "/b/a-multi-shared": {"post": {"operationId": "postMultiShared", "requestBody": {"content": {"multipart/form-data": {"schema": ref("Form")}}}, "responses": {"204": {"description": "none"}}}},
            "/b/json-shared": {"post": {"operationId": "postJsonShared", "requestBody": {"content": {"application/json": {"schema": ref("Form")}}}, "responses": {"204": {"description": "none"}}}},
            "/b/json": {"post": {"operationId": "postJson", "requestBody": {"required": True, "content": {"application/json": {"schema": ref("Leaf")}}}, "responses": {"204": {"description": "none"}}}},
            "/b/json-list": {"post": {"operationId": "postJsonList", "requestBody": {"content": {"application/json": {"schema": arr(ref("Leaf"))}}}, "responses": {"204": {"description": "none"}}}},
            "/b/vnd": {"put": {"operationId": "putVnd", "requestBody": {"content": {"application/vnd.skel+json": {"schema": ref("Leaf")}}}, "responses": {"204": {"description": "none"}}}},
            # media type keys with parameters: they are sent exactly as the document spells them
            "/b/charset": {"post": {"operationId": "postCharset", "requestBody": {"content": {"application/json; charset=utf-8": {"schema": ref("Leaf")}}}, "responses": {"204": {"description": "none"}}}},
            "/b/vnd-param": {"put": {"operationId": "putVndParam", "requestBody": {"content": {"application/vnd.skel+json; ext=bulk": {"schema": arr(INT)}, "application/xml": {"schema": ref("Leaf")}}}, "responses": {"204": {"description": "none"}}}},
            # media types that are only supported through content_type_overrides (C16); without the option they are reported and skipped
            "/b/zip": {"post": {"operationId": "postZip", "requestBody": {"content": {"application/zip": {"schema": {"type": "string", "format": "binary"}}}}, "responses": {"204": {"description": "none"}}}},
            "/b/mixed": {"post": {"operationId": "postMixed", "requestBody": {"content": {"multipart/mixed": {"schema": ref("Form")}}}, "responses": {"204": {"description": "none"}}}},
            "/b/text-json": {"post": {"operationId": "postTextJson", "requestBody": {"content": {"text/json": {"schema": ref("Leaf")}, "application/json": {"schema": ref("Form")}}}, "responses": {"204": {"description": "none"}}}},
            "/b/no-schema": {"post": {"operationId": "postNoSchema", "requestBody": {"content": {"application/json": {}, "application/x-www-form-urlencoded": {"schema": ref("Form")}, "not a media type": {"schema": STR}}}, "responses": {"204": {"description": "none"}}}},
            "/b/form": {"post": {"operationId": "postForm", "requestBody": {"content": {"application/x-www-form-urlencoded": {"schema": ref("Form")}}}, "responses": {"204": {"description": "none"}}}},
            "/b/multi": {"post": {"operationId": "postMulti", "requestBody": {"content": {"multipart/form-data": {"schema": ref("Upload")}}}, "responses": {"204": {"description": "none"}}}},
            "/b/bin": {"post": {"operationId": "postBin", "requestBody": {"content": {"application/octet-stream": {"schema": {"type": "string", "format": "binary"}}}}, "responses": {"204": {"description": "none"}}}},
            "/b/two": {
                "post": {
                    "operationId": "postTwo",
                    "requestBody": {"content": {"application/json": {"schema": ref("Leaf")}, "application/x-www-form-urlencoded": {"schema": ref("Form")}}},
                    "parameters": [param("q", "query", STR)],
                    "responses": {"204": {"description": "none"}},
                }
            },
            "/b/ref": {"post": {"operationId": "postRefBody", "requestBody": {"$ref": "#/components/requestBodies/LeafBody"}, "responses": {"204": {"description": "none"}}}},
            "/b/scalar": {"post": {"operationId": "postScalar", "requestBody": {"content": {"application/json": {"schema": STR}}}, "responses": {"204": {"description": "none"}}}},
        },
        requestBodies={"LeafBody": {"$ref": "#/components/requestBodies/LeafBody2"}, "LeafBody2": {"content": {"application/json": {"schema": ref("Leaf")}}}},
    )
    # multipart/form-data bodies with every property kind (each kind has its own to_multipart encoding)
    S["multipart"] = doc(
        {
            "Leaf": leaf,
            "Color": color,
            "PartsA": obj({"the-when": DATE, "the-color": ref("Color"), "stamp": DT, "ratio": NUM, "flag": BOOL}, ["the-when", "the-color"], additionalProperties=False),
            "PartsB": obj({"tag-list": arr(STR), "count": INT}, ["count"], additionalProperties=False),
            "Tiny": obj({"t-id": INT}, ["t-id"], additionalProperties=False),
            "PartsD": obj({"meta": ref("Tiny"), "either": {"oneOf": [INT, STR]}, "u.id": UUID}, ["either"], additionalProperties=False),
            "PartsC": obj({"blob": {"type": "string", "format": "binary"}, "opt-blob": {"type": "string", "format": "binary"}, "opt-day": DATE, "level": {"type": "integer", "enum": [1, 2]}}, ["blob"]),
            "PartsFiles": obj({"blobs": arr({"type": "string", "format": "binary"}), "note": STR}, ["blobs"], additionalProperties=False),
        },
        {
            "/m/a": {"post": {"operationId": "postPartsA", "requestBody": {"content": {"multipart/form-data": {"schema": ref("PartsA")}}}, "responses": {"204": {"description": "none"}}}},
            "/m/b": {"post": {"operationId": "postPartsB", "requestBody": {"content": {"multipart/form-data": {"schema": ref("PartsB")}}}, "responses": {"204": {"description": "none"}}}},
            "/m/d": {"post": {"operationId": "postPartsD", "requestBody": {"content": {"multipart/form-data": {"schema": ref("PartsD")}}}, "responses": {"204": {"description": "none"}}}},
            "/m/c": {"put": {"operationId": "putPartsC", "requestBody": {"content": {"multipart/form-data": {"schema": ref("PartsC")}}}, "parameters": [param("q", "query", STR)], "responses": {"204": {"description": "none"}}}},
            # a union-typed header (finding C03-F2; kept out of the skeletons other properties share)
            "/h/union": {"get": {"operationId": "headerUnion", "parameters": [param("X-U", "header", {"anyOf": [INT, BOOL]})], "responses": {"204": {"description": "none"}}}},
            # a parameter described with `content` instead of `schema` (legal OpenAPI; finding C03-F3: dropped without a word)
            "/p/content": {"get": {"operationId": "contentParam", "parameters": [{"name": "filter", "in": "query", "content": {"application/json": {"schema": obj({"f-a": STR})}}}, param("plain", "query", STR)], "responses": {"204": {"description": "none"}}}},
            "/m/files": {"post": {"operationId": "postPartsFiles", "requestBody": {"content": {"multipart/form-data": {"schema": ref("PartsFiles")}}}, "responses": {"204": {"description": "none"}}}},
        },
    )
    S["responses"] = doc(
        {"Leaf": leaf, "Err": obj({"err-code": INT, "msg": STR}, ["err-code"]), "Color": color},
        {
            "/r/model": {"get": {"operationId": "getModel", "responses": {"200": jresp(ref("Leaf")), "404": jresp(ref("Err")), "204": {"description": "none"}}}},
            "/r/list": {"get": {"operationId": "getList", "responses": {"200": jresp(arr(ref("Leaf"))), "201": jresp(arr(INT))}}},
            "/r/scalars": {"get": {"operationId": "getScalars", "responses": {"200": jresp(INT), "201": jresp(STR), "202": jresp(ref("Color")), "203": jresp(DATE)}}},
            "/r/text": {"get": {"operationId": "getText", "responses": {"200": jresp(STR, ct="text/plain"), "201": jresp({"type": "string", "format": "binary"}, ct="application/octet-stream")}}},
            "/r/vnd": {"get": {"operationId": "getVnd", "responses": {"200": jresp(ref("Leaf"), ct="application/vnd.skel+json; charset=utf-8")}}},
            "/r/union": {"get": {"operationId": "getUnion", "responses": {"200": jresp({"oneOf": [ref("Leaf"), ref("Err")]}), "400": jresp({"type": ["integer", "null"]})}}},
            # scalar members listed *before* the constructed member (the last constructed member still needs its guard)
            "/r/union-scalar-first": {"get": {"operationId": "getUnionScalarFirst", "responses": {"200": jresp({"oneOf": [STR, ref("Leaf")]}), "201": jresp({"anyOf": [INT, arr(ref("Leaf"))]}), "202": jresp({"oneOf": [BOOL, DATE]})}}},
            "/r/ref": {"get": {"operationId": "getRefResp", "security": [{"k": []}], "responses": {"200": {"$ref": "#/components/responses/LeafResp"}, "500": {"$ref": "#/components/responses/Empty"}}}},
            "/r/multi": {
                "get": {
                    "operationId": "getMultiMedia",
                    "responses": {
                        "200": {"description": "xml first", "content": {"application/xml": {"schema": ref("Leaf")}, "application/json": {"schema": ref("Leaf")}}},
                        "201": {"description": "json first", "content": {"application/json": {"schema": INT}, "image/png": {"schema": {"type": "string", "format": "binary"}}}},
                        "202": {"description": "text after unsupported", "content": {"application/pdf": {}, "text/plain": {"schema": STR}}},
                    },
                }
            },
            # keys the generator cannot turn into a status (reported, omitted) listed *between* ordinary ones
            "/r/range": {"get": {"operationId": "getRange", "responses": {"200": jresp(INT), "4XX": jresp(ref("Err")), "503": jresp(ref("Err")), "default": jresp(ref("Err")), "409": jresp(STR)}}},
            "/r/none": {"get": {"operationId": "getNone", "responses": {"204": {"description": "none"}}}},
            "/r/shared1": {"get": {"operationId": "getSharedOne", "responses": {"200": jresp(INT), "404": {"$ref": "#/components/responses/NotFound"}}}},
            "/r/shared2": {"get": {"operationId": "getSharedTwo", "responses": {"404": {"$ref": "#/components/responses/NotFound"}, "409": {"$ref": "#/components/responses/NotFound"}}}},
        },
        responses={"LeafResp": jresp(ref("Leaf")), "Empty": {"description": "nothing"}, "NotFound": jresp(obj({"detail": STR, "kind": {"type": "string", "enum": ["gone", "never"]}}, ["detail"]))},
    )
    return S
