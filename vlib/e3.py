"""E3: schema-directed CrossHair harnesses for regenerated client code.

The harness for a model / operation is generated from the *document* (schemas, parameters, media types) — the symbolic
instance builder and the oracle never look at the generator's output.  Only Python identifiers (class, module,
attribute and keyword-argument names) are read from the real parser's data, because renaming is not the subject here.
"""
from __future__ import annotations

import copy
from typing import Any

INT_POOL = (0, -7, 12345)
DATES = ("2020-01-02", "1999-12-31")
DATETIMES = ("2020-01-02T03:04:05", "2021-06-07T08:09:10.123456")
UUIDS = ("12345678-1234-5678-1234-567812345678", "00000000-0000-0000-0000-000000000000")
ANY_POOL = (None, 1, "s", {"k": [1, "a"]})
PLAIN_STRINGS = ("", "abc", "x y", "Ünï", "2020", "not-a-date")


class SkeletonError(Exception):
    pass


def deref(doc: dict, schema: Any) -> Any:
    seen = 0
    while isinstance(schema, dict) and "$ref" in schema:
        ref = schema["$ref"]
        if not ref.startswith("#/"):
            raise SkeletonError(f"non-local ref {ref}")
        node: Any = doc
        for part in ref[2:].split("/"):
            node = node[part.replace("~1", "/").replace("~0", "~")]
        schema = node
        seen += 1
        if seen > 20:
            raise SkeletonError("ref cycle")
    return schema


def merged_object(doc: dict, schema: dict) -> dict:
    """Flatten allOf into one object schema (properties, required, additionalProperties)."""
    props: dict = {}
    required: list = []
    addl = schema.get("additionalProperties")

    def visit(s: dict) -> None:
        nonlocal addl
        s = deref(doc, s)
        for sub in s.get("allOf", []):
            visit(sub)
        for k, v in (s.get("properties") or {}).items():
            if k in props:
                props[k] = narrow(doc, props[k], v)
            else:
                props[k] = v
        for r in s.get("required") or []:
            if r not in required:
                required.append(r)

    visit(schema)
    return {"type": "object", "properties": props, "required": required, "additionalProperties": addl}


def narrow(doc: dict, a: dict, b: dict) -> dict:
    """Conjunction of two property schemas for the simple cases skeletons use (int/number, enum/base, format/plain)."""
    a2, b2 = deref(doc, a), deref(doc, b)
    if a2 == b2:
        return b
    if "enum" in a2 and "enum" in b2:
        vals = [v for v in a2["enum"] if v in b2["enum"]]
        return {**b2, "enum": vals}
    if "enum" in a2:
        return a
    if "enum" in b2:
        return b
    if {a2.get("type"), b2.get("type")} == {"integer", "number"}:
        return a if a2.get("type") == "integer" else b
    if a2.get("type") == "string" and b2.get("type") == "string":
        return a if a2.get("format") else b
    if not a2:
        return b
    if not b2:
        return a
    return b


def alternatives(doc: dict, schema: Any) -> list[dict]:
    """Normalise a schema into a list of value-disjoint alternatives {'k': kind, ...}."""
    if schema is True or schema == {} or schema is None:
        return [{"k": "any"}]
    is_ref = isinstance(schema, dict) and "$ref" in schema
    s = deref(doc, schema)
    out: list[dict] = []
    if "oneOf" in s or "anyOf" in s:
        for m in (s.get("anyOf") or []) + (s.get("oneOf") or []):
            out += alternatives(doc, m)
        if isinstance(s.get("type"), list):
            for t in s["type"]:
                out += alternatives(doc, {**{k: v for k, v in s.items() if k not in ("oneOf", "anyOf", "type")}, "type": t})
    elif isinstance(s.get("type"), list):
        for t in s["type"]:
            out += alternatives(doc, {**{k: v for k, v in s.items() if k != "type"}, "type": t})
    elif "enum" in s:
        vals = [v for v in s["enum"] if v is not None]
        if len(vals) < len(s["enum"]):
            out.append({"k": "null"})
        if vals:
            out.append({"k": "enum", "values": vals})
    elif "const" in s:
        out.append({"k": "const", "value": s["const"]})
    elif s.get("allOf") and not (len(s["allOf"]) == 1 and not s.get("properties")):
        out.append({"k": "object", "schema": merged_object(doc, s), "ref": is_ref})
    elif s.get("allOf"):
        out += alternatives(doc, s["allOf"][0])
    else:
        t = s.get("type")
        if t == "null":
            out.append({"k": "null"})
        elif t == "integer":
            out.append({"k": "int"})
        elif t == "number":
            out.append({"k": "number"})
        elif t == "boolean":
            out.append({"k": "bool"})
        elif t == "string":
            out.append({"k": "str", "format": s.get("format")})
        elif t == "array":
            items = s.get("items", {})
            if s.get("prefixItems"):
                # 3.1 tuples: the generator decodes every element as "any of the listed item schemas" - a superset of
                # the position-wise instances, for which the round trip has to hold all the same
                members = list(s["prefixItems"]) + ([items] if "items" in s else [])
                items = members[0] if len(members) == 1 else {"anyOf": members}
            out.append({"k": "array", "items": items})
        elif t == "object" or (t is None and s.get("properties")):
            out.append({"k": "object", "schema": merged_object(doc, s), "ref": is_ref})
        elif t is None:
            out.append({"k": "any"})
        else:
            raise SkeletonError(f"unsupported type {t}")
    if s.get("nullable") and not any(a["k"] == "null" for a in out):
        out.insert(0, {"k": "null"})
    # de-duplicate nulls
    res, seen_null = [], False
    for a in out:
        if a["k"] == "null":
            if seen_null:
                continue
            seen_null = True
        res.append(a)
    return res


class Gen:
    """Emits Python statements that assemble a symbolic JSON instance of a schema from harness arguments."""

    def __init__(self, doc: dict, depth_max: int = 2, list_max: int = 2, str_max: int = 3, prefix: str = "") -> None:
        self.doc, self.depth_max, self.list_max, self.str_max = doc, depth_max, list_max, str_max
        self.args: list[tuple[str, str]] = []
        self.pre: list[str] = []
        self.n = 0
        self.prefix = prefix

    def arg(self, base: str, ann: str, pre: str | None = None) -> str:
        self.n += 1
        name = f"{self.prefix}{base}{self.n}"
        self.args.append((name, ann))
        if pre:
            self.pre.append(pre.replace("$", name))
        return name

    def emit(self, schema: Any, lines: list[str], ind: str, target: str, depth: int = 0, pool_str: bool = False) -> None:
        alts = alternatives(self.doc, schema)
        if not alts:
            raise SkeletonError("schema without alternatives")
        union_has_datelike = any(a["k"] == "str" and a.get("format") in ("date", "date-time", "uuid") for a in alts)
        if len(alts) == 1:
            self.emit_alt(alts[0], lines, ind, target, depth, pool_str)
            return
        sel = self.arg("s", "int", f"0 <= $ < {len(alts)}")
        for i, a in enumerate(alts):
            lines.append(f"{ind}{'if' if i == 0 else 'elif'} {sel} == {i}:")
            self.emit_alt(a, lines, ind + "    ", target, depth, pool_str or union_has_datelike)
        lines.append(f"{ind}else:")
        lines.append(f"{ind}    {target} = None")

    pool_all = False  # multipart encoders call str(x).encode(): symbolic leaves would be realised, so use pools

    def emit_alt(self, a: dict, lines: list[str], ind: str, target: str, depth: int, pool_str: bool) -> None:
        k = a["k"]
        pool_str = pool_str or self.pool_all
        if self.pool_all and k in ("int", "number", "bool"):
            pool = {"int": INT_POOL, "number": (0.5, -2.0), "bool": (True, False)}[k]
            i = self.arg("m", "int", f"0 <= $ < {len(pool)}")
            lines.append(f"{ind}{target} = pick({pool!r}, {i})")
            return
        if k == "null":
            lines.append(f"{ind}{target} = None")
        elif k == "int":
            lines.append(f"{ind}{target} = {self.arg('i', 'int')}")
        elif k == "number":
            v = self.arg("f", "float", "$ == $ and -1000000.0 < $ < 1000000.0")
            lines.append(f"{ind}{target} = {v}")
        elif k == "bool":
            lines.append(f"{ind}{target} = {self.arg('b', 'bool')}")
        elif k == "str":
            fmt = a.get("format")
            pools = {"date": DATES, "date-time": DATETIMES, "uuid": UUIDS}
            if fmt in pools:
                i = self.arg("d", "int", f"0 <= $ < {len(pools[fmt])}")
                lines.append(f"{ind}{target} = pick({pools[fmt]!r}, {i})")
            elif fmt == "binary":
                raise SkeletonError("binary string in a JSON instance")
            elif pool_str:
                i = self.arg("p", "int", f"0 <= $ < {len(PLAIN_STRINGS)}")
                lines.append(f"{ind}{target} = pick({PLAIN_STRINGS!r}, {i})")
            else:
                v = self.arg("t", "str", f"len($) <= {self.str_max}")
                lines.append(f"{ind}{target} = {v}")
        elif k == "enum":
            vals = tuple(a["values"])
            i = self.arg("e", "int", f"0 <= $ < {len(vals)}")
            lines.append(f"{ind}{target} = pick({vals!r}, {i})")
        elif k == "const":
            lines.append(f"{ind}{target} = {a['value']!r}")
        elif k == "any":
            i = self.arg("a", "int", f"0 <= $ < {len(ANY_POOL)}")
            lines.append(f"{ind}{target} = pick({ANY_POOL!r}, {i})")
        elif k == "array":
            if depth >= self.depth_max and depth > 0:
                lines.append(f"{ind}{target} = []")
                return
            n = self.arg("n", "int", f"0 <= $ <= {self.list_max}")
            lines.append(f"{ind}{target} = []")
            for j in range(self.list_max):
                lines.append(f"{ind}if {n} > {j}:")
                el = f"{target}_e{j}"
                self.emit(a["items"], lines, ind + "    ", el, depth + 1, pool_str)
                lines.append(f"{ind}    {target}.append({el})")
        elif k == "object":
            self.emit_object(a["schema"], lines, ind, target, depth + (1 if a.get("ref") else 0), pool_str)
        else:
            raise SkeletonError(k)

    def emit_object(self, s: dict, lines: list[str], ind: str, target: str, depth: int, pool_str: bool) -> None:
        lines.append(f"{ind}{target} = {{}}")
        props, required = s.get("properties") or {}, s.get("required") or []
        for idx, (name, sub) in enumerate(props.items()):
            child = f"{target}_p{idx}"
            if name in required:
                if depth > self.depth_max + 1:
                    raise SkeletonError(f"required recursion too deep at {name}")
                self.emit(sub, lines, ind, child, depth, pool_str)
                lines.append(f"{ind}{target}[{name!r}] = {child}")
            else:
                if depth > self.depth_max:
                    continue
                p = self.arg("has", "bool")
                lines.append(f"{ind}if {p}:")
                self.emit(sub, lines, ind + "    ", child, depth, pool_str)
                lines.append(f"{ind}    {target}[{name!r}] = {child}")
        addl = s.get("additionalProperties")
        if addl is not False and depth == 0:
            extra_keys = [k for k in ("zz-extra", "d") if k not in props][:1]
            for j, key in enumerate(extra_keys):
                p = self.arg("x", "bool")
                lines.append(f"{ind}if {p}:")
                child = f"{target}_x{j}"
                self.emit(addl if isinstance(addl, dict) else True, lines, ind + "    ", child, depth + 1, pool_str)
                lines.append(f"{ind}    {target}[{key!r}] = {child}")


def func_source(name: str, gen: Gen, body: list[str], ret: str, raises: str | None = None, extra_pre: list[str] | None = None) -> str:
    sig = ", ".join(f"{a}: {t}" for a, t in gen.args)
    doc = ['    """']
    for p in gen.pre + (extra_pre or []):
        doc.append(f"    pre: {p}")
    doc.append("    post: _")
    if raises:
        doc.append(f"    raises: {raises}")
    doc.append('    """')
    return "\n".join([f"def {name}({sig}) -> bool:"] + doc + body + [f"    return {ret}", ""])


def model_index(data: Any) -> dict[str, tuple[str, str, Any]]:
    """component schema name -> (module, class, ModelProperty) from the real parser's data."""
    out = {}
    for m in data.models:
        if m.name.startswith("/components/schemas/"):
            out[m.name.split("/")[-1]] = (str(m.class_info.module_name), str(m.class_info.name), m)
    return out


def _example_literal(doc: dict, schema: Any, prop: Any, package: str) -> str | None:
    """A concrete Python expression for a required constructor argument (only simple kinds)."""
    al = alternatives(doc, schema)
    a = al[0]
    k = a["k"]
    if k == "int":
        return "7"
    if k == "number":
        return "1.5"
    if k == "bool":
        return "True"
    if k == "str" and a.get("format") is None:
        return "'req'"
    if k == "null":
        return "None"
    if k == "const":
        return repr(a["value"])
    return None


HEADER = '''"""Generated E3 harness (from the skeleton document; do not edit)."""
import sys
from vlib.e3_support import Resp, RecClient, drive, is_plain_json, pick, roundtrip_ok
'''


def model_harness(doc: dict, package: str, data: Any, depth_max: int = 2, list_max: int = 2, str_max: int = 3, only: list[str] | None = None) -> tuple[str, list[str], dict]:
    """Source of a harness module with one round-trip and one tri-state condition per object component schema."""
    src = [HEADER, f"from {package}.types import UNSET, Unset"]
    idx = model_index(data)
    funcs, meta = [], {}
    for name, (module, cls, mp) in sorted(idx.items()):
        if only and name not in only:
            continue
        schema = doc["components"]["schemas"][name]
        alts = alternatives(doc, {"$ref": f"#/components/schemas/{name}"})
        if len(alts) != 1 or alts[0]["k"] != "object":
            continue
        src.append(f"from {package}.models.{module} import {cls}")
        g = Gen(doc, depth_max, list_max, str_max)
        body = ["    def build():"]
        try:
            g.emit_object(alts[0]["schema"], body, "        ", "t", 0, False)
        except SkeletonError as e:
            meta[name] = {"skipped": str(e)}
            continue
        body.append("        return t")
        fn = f"rt_{cls}"
        src.append(func_source(fn, g, body, f"roundtrip_ok({cls}, build(), build())"))
        funcs.append(fn)
        props = list((mp.required_properties or []) + (mp.optional_properties or []))
        names = [(p.name, str(p.python_name)) for p in props]
        fn2 = f"tri_{cls}"
        src.append(func_source(fn2, g, body, f"tristate_ok({cls}, build(), build(), {names!r}, UNSET)"))
        funcs.append(fn2)
        meta[name] = {"class": cls, "args": len(g.args), "schema_keys": sorted(schema.keys()) if isinstance(schema, dict) else []}
        # C10: the declared type admits None exactly when the document makes the property nullable, Unset exactly when optional
        mprops, mreq = alts[0]["schema"].get("properties") or {}, alts[0]["schema"].get("required") or []
        ntable = []
        for wname, pyn in names:
            if wname not in mprops:
                continue
            pal = alternatives(doc, mprops[wname])
            has_default = isinstance(deref(doc, mprops[wname]), dict) and deref(doc, mprops[wname]).get("default") is not None
            ntable.append((pyn, any(a["k"] == "null" for a in pal), wname not in mreq, any(a["k"] == "any" for a in pal)))
        fnn = f"tri_hints_{cls}"
        src.append(f'def {fnn}() -> bool:\n    """\n    post: _\n    """\n    return nullability_ok({cls}, {tuple(ntable)!r}, _NS, Unset)\n')
        funcs.append(fnn)
        # C10/C15: what the document (after flattening allOf) requires is demanded by the decoder and the constructor
        req_doc = [r for r in (alts[0]["schema"].get("required") or []) if r in (alts[0]["schema"].get("properties") or {})]
        if req_doc:
            g6 = Gen(doc, depth_max, list_max, str_max)
            body6 = ["    def build():"]
            g6.emit_object(alts[0]["schema"], body6, "        ", "t", 0, False)
            body6.append("        return t")
            di = g6.arg("drop", "int", f"0 <= $ < {len(req_doc)}")
            pyof = dict(names)
            table = tuple((r, pyof.get(r, ""), "default" in deref(doc, alts[0]["schema"]["properties"][r])) for r in req_doc)
            fn6 = f"reqd_{cls}"
            src.append(func_source(fn6, g6, body6, f"required_ok({cls}, build(), pick({table!r}, {di}))"))
            funcs.append(fn6)
        # C11: annotations are truthful for every decoded instance
        fn3 = f"ann_{cls}"
        src.append(func_source(fn3, g, body, f"annotations_ok({cls}, build(), {names!r}, _NS)"))
        funcs.append(fn3)
        # C13: declared defaults
        merged = alts[0]["schema"]
        expected, req_kwargs, ok = [], [], True
        for p in props:
            ps = deref(doc, (merged.get("properties") or {}).get(p.name, {}))
            if isinstance(ps, dict) and "default" in ps:
                expected.append((p.name, str(p.python_name), ps["default"]))
            elif p.required:
                lit = _example_literal(doc, ps, p, package)
                if lit is None:
                    ok = False
                    break
                req_kwargs.append((str(p.python_name), lit))
        if expected and ok:
            fn4 = f"dflt_{cls}"
            kw = "{" + ", ".join(f"{k!r}: {v}" for k, v in req_kwargs) + "}"
            src.append(f'def {fn4}() -> bool:\n    """\n    post: _\n    """\n    return defaults_ok({cls}, {kw}, {expected!r})\n')
            funcs.append(fn4)
        # C14: enum / const membership
        for p in props:
            ps = (merged.get("properties") or {}).get(p.name, {})
            al = alternatives(doc, ps)
            kinds = [a for a in al if a["k"] in ("enum", "const")]
            if not kinds or any(a["k"] not in ("enum", "const", "null") for a in al):
                continue
            vals = []  # a union of several consts / enums admits exactly the values any member lists
            for kd in kinds:
                for v in kd["values"] if kd["k"] == "enum" else [kd["value"]]:
                    if all(not (v == u and type(v) is type(u)) for u in vals):
                        vals.append(v)
            near = []
            for v in vals:
                if isinstance(v, str):
                    near += [v.upper() if v.upper() != v else v.lower(), v + " ", "x" + v]
                else:
                    near += [v + 1000, str(v)]
            near += ["", 0, True] if isinstance(vals[0], str) else [1.5, "1"]
            cands = list(vals) + [c for c in near if all(not (c == v and type(c) is type(v)) for v in vals)]
            gb = Gen(doc, 0, 0, 1)
            base_lines = ["    def build():"]
            try:
                gb.emit_object({**merged, "properties": {k: v for k, v in (merged.get("properties") or {}).items() if k in (merged.get("required") or []) and k != p.name}, "additionalProperties": False}, base_lines, "        ", "t", 0, True)
            except SkeletonError:
                continue
            base_lines.append("        return t")
            ci = gb.arg("cand", "int", f"0 <= $ < {len(cands)}")
            fn5 = f"memb_{cls}_{p.python_name}"
            src.append(func_source(fn5, gb, base_lines, f"membership_ok({cls}, build(), {p.name!r}, pick({tuple(cands)!r}, {ci}), {ci} < {len(vals)}, {str(p.python_name)!r})"))
            funcs.append(fn5)
    # an object component that declares properties / requirements of its own must have a class of its own: a schema that
    # is quietly replaced by another one (e.g. by the single-reference shortcut) would otherwise escape every condition
    for name, schema in sorted(doc["components"]["schemas"].items()):
        if only and name not in only:
            continue
        if name in idx or not isinstance(schema, dict) or not (schema.get("properties") or schema.get("required")):
            continue
        fn7 = "absent_" + "".join(ch if ch.isalnum() else "_" for ch in name)
        why = f"component schema {name} declares properties/required of its own but no class was generated for it"
        src.append(f'def {fn7}() -> bool:\n    """\n    post: _\n    """\n    return missing_piece({why!r})\n')
        funcs.append(fn7)
    src.insert(2, "from vlib.e3_support import annotations_ok, defaults_ok, membership_ok, missing_piece, nullability_ok, required_ok, tristate_ok")
    src.insert(3, f"import {package}.models as _models\nimport datetime, uuid, typing\n_NS = dict(vars(_models), datetime=datetime, UUID=uuid.UUID, Unset=Unset, **vars(typing))")
    return "\n".join(src) + "\n", funcs, meta


# ================================================================================================ endpoints
UNREGISTERED_STATUS = True  # include a status code that http.HTTPStatus does not register (switched off while finding C04-F1 is live)
PATH_STR_NOTE = "path parameters of type string are symbolic strings; ints come from a pool (str(int) realises)"


class ParamGen(Gen):
    """Emits, for one parameter / body schema, two variables: the Python argument value and its expected wire value."""

    def __init__(self, doc: dict, package: str, **kw: Any) -> None:
        super().__init__(doc, **kw)
        self.package = package
        self.imports: set[str] = set()

    def emit_py(self, schema: Any, prop: Any, lines: list[str], ind: str, py: str, wire: str, pool_ints: bool = False) -> None:
        alts = alternatives(self.doc, schema)
        pname = type(prop).__name__
        if len(alts) == 1:
            self.emit_py_alt(alts[0], prop, lines, ind, py, wire, pool_ints)
            return
        inner = list(getattr(prop, "inner_properties", []) or [])
        sel = self.arg("s", "int", f"0 <= $ < {len(alts)}")
        for i, a in enumerate(alts):
            lines.append(f"{ind}{'if' if i == 0 else 'elif'} {sel} == {i}:")
            sub = _match_inner(a, inner) if pname == "UnionProperty" else prop
            self.emit_py_alt(a, sub, lines, ind + "    ", py, wire, pool_ints)
        lines.append(f"{ind}else:")
        lines.append(f"{ind}    {py} = {wire} = None")

    def emit_py_alt(self, a: dict, prop: Any, lines: list[str], ind: str, py: str, wire: str, pool_ints: bool) -> None:
        k = a["k"]
        if k in ("null", "bool", "const", "any") or (k in ("int", "number") and not pool_ints) or (k == "str" and a.get("format") not in ("date", "date-time", "uuid")):
            self.emit_alt(a, lines, ind, wire, 0, False)
            lines.append(f"{ind}{py} = {wire}")
        elif k == "int":
            i = self.arg("ip", "int", f"0 <= $ < {len(INT_POOL)}")
            lines.append(f"{ind}{wire} = pick({INT_POOL!r}, {i})")
            lines.append(f"{ind}{py} = {wire}")
        elif k == "number" and pool_ints:
            i = self.arg("fp", "int", "0 <= $ < 2")
            lines.append(f"{ind}{wire} = pick((0.5, -2.0), {i})")
            lines.append(f"{ind}{py} = {wire}")
        elif k == "str":
            self.emit_alt(a, lines, ind, wire, 0, False)
            fmt = a["format"]
            if fmt == "date":
                self.imports.add("import datetime")
                lines.append(f"{ind}{py} = datetime.date.fromisoformat({wire})")
            elif fmt == "date-time":
                self.imports.add("import datetime")
                lines.append(f"{ind}{py} = datetime.datetime.fromisoformat({wire})")
            else:
                self.imports.add("import uuid")
                lines.append(f"{ind}{py} = uuid.UUID({wire})")
        elif k == "enum":
            self.emit_alt(a, lines, ind, wire, 0, False)
            ci = getattr(prop, "class_info", None)
            if ci is not None and type(prop).__name__ == "EnumProperty":
                self.imports.add(f"from {self.package}.models.{ci.module_name} import {ci.name}")
                lines.append(f"{ind}{py} = {ci.name}({wire})")
            else:
                lines.append(f"{ind}{py} = {wire}")
        elif k == "array":
            n = self.arg("n", "int", f"0 <= $ <= {self.list_max}")
            lines.append(f"{ind}{py} = []")
            lines.append(f"{ind}{wire} = []")
            inner = getattr(prop, "inner_property", None)
            for j in range(self.list_max):
                lines.append(f"{ind}if {n} > {j}:")
                self.emit_py(a["items"], inner, lines, ind + "    ", f"{py}_e{j}", f"{wire}_e{j}", pool_ints)
                lines.append(f"{ind}    {py}.append({py}_e{j})")
                lines.append(f"{ind}    {wire}.append({wire}_e{j})")
        elif k == "object":
            ci = getattr(prop, "class_info", None)
            if ci is None:
                raise SkeletonError("object parameter without class")
            self.imports.add(f"from {self.package}.models.{ci.module_name} import {ci.name}")
            self.emit_object(a["schema"], lines, ind, wire, 0, self.pool_all)  # depth 0: lists directly inside the body hold elements
            lines.append(f"{ind}{py} = {ci.name}.from_dict(dict({wire}))")
        else:
            raise SkeletonError(k)


def _match_inner(a: dict, inner: list) -> Any:
    want = {"null": "NoneProperty", "int": "IntProperty", "number": "FloatProperty", "bool": "BooleanProperty", "enum": ("EnumProperty", "LiteralEnumProperty"), "array": "ListProperty", "object": "ModelProperty", "const": "ConstProperty", "any": "AnyProperty"}
    if a["k"] == "str":
        w: Any = {"date": "DateProperty", "date-time": "DateTimeProperty", "uuid": "UuidProperty", "binary": "FileProperty"}.get(a.get("format"), "StringProperty")
    else:
        w = want[a["k"]]
    ws = w if isinstance(w, tuple) else (w,)
    for p in inner:
        if type(p).__name__ in ws:
            return p
    return None


def header_wire(kind: dict, wire: str) -> str:
    """Expected header text for a wire value of the given kind (documented encodings)."""
    k = kind["k"]
    if k == "bool":
        return f'("true" if {wire} else "false")'
    if k in ("int", "number"):
        return f"str({wire})"
    if k == "enum":
        return f"str({wire})"
    return wire


def endpoints(data: Any) -> dict[Any, Any]:
    """Generated endpoints by (method, path) - the identity the *document* gives an operation (operationId is optional)."""
    out = {}
    for tag, coll in data.endpoint_collections_by_tag.items():
        for ep in coll.endpoints:
            out.setdefault((str(ep.method).lower(), _norm_path(str(ep.path))), (str(ep.tags[0]), ep))
    return out


def _norm_path(path: str) -> str:
    """Placeholders compare by position: the generator spells them with the Python names of the parameters."""
    import re

    return re.sub(r"\{[^}]*\}", "{}", path)


def _operation_params(doc: dict, path: str, method: str) -> list[dict]:
    item = doc["paths"][path]
    op = item[method]
    res, seen = [], set()
    for p in (op.get("parameters") or []) + (item.get("parameters") or []):
        p = deref(doc, p)
        key = (p["name"], p["in"])
        if key in seen:
            continue
        seen.add(key)
        if "schema" in p or "content" in p:
            res.append(p)
    return res


def endpoint_harness(doc: dict, package: str, data: Any, cfg: Any, list_max: int = 2, str_max: int = 2, only: list[str] | None = None) -> tuple[str, list[str], dict]:
    """Harness module: per operation `req_<op>` (kwargs oracle + sync/async agreement + exactly one request) and
    `resp_<op>` (status/media-type decoding oracle)."""
    from openapi_python_client import utils

    eps = endpoints(data)
    src_head = [HEADER, f"from {package}.types import UNSET, Unset, File", f"from {package} import errors as _errors", f"from {package}.client import AuthenticatedClient, Client", "import inspect", "from vlib.e3_support import missing_piece, request_ok, response_ok"]
    body_src: list[str] = []
    funcs: list[str] = []
    meta: dict = {}
    imports: set[str] = set()
    for path, item in doc.get("paths", {}).items():
        for method, op in item.items():
            if method not in ("get", "put", "post", "delete", "options", "head", "patch", "trace"):
                continue
            opid = op.get("operationId") or f"{method} {path}"
            if (method, _norm_path(path)) not in eps or (only and opid not in only):
                if (method, _norm_path(path)) not in eps:
                    meta[opid] = {"skipped": "not generated (diagnosed)"}
                continue
            tag, ep = eps[(method, _norm_path(path))]
            modname = str(utils.PythonIdentifier(ep.name, cfg.field_prefix))
            alias = f"op_{modname}"
            imports.add(f"from {package}.api.{tag} import {modname} as {alias}")
            try:
                s1, f1 = _req_condition(doc, package, path, method, op, ep, alias, list_max, str_max, imports)
                body_src.append(s1)
                funcs.append(f1)
            except SkeletonError as e:
                meta.setdefault(opid, {})["req_skipped"] = str(e)
            try:
                s2, f2 = _resp_condition(doc, package, path, method, op, ep, alias, list_max, str_max, imports)
                body_src.append(s2)
                funcs.append(f2)
            except SkeletonError as e:
                meta.setdefault(opid, {})["resp_skipped"] = str(e)
    return "\n".join(src_head + sorted(imports) + [""] + body_src) + "\n", funcs, meta


def _req_condition(doc, package, path, method, op, ep, alias, list_max, str_max, imports) -> tuple[str, str]:
    g = ParamGen(doc, package, depth_max=1, list_max=list_max, str_max=str_max)
    lines: list[str] = ["    kw = {}", "    exp_params, exp_headers, exp_cookies, exp_path = {}, {}, {}, {}"]
    by_loc = {"path": ep.path_parameters, "query": ep.query_parameters, "header": ep.header_parameters, "cookie": ep.cookie_parameters}
    has_query = has_cookie = has_header = False
    for i, p in enumerate(_operation_params(doc, path, method)):
        loc, name = p["in"], p["name"]
        prop = next((x for x in by_loc[loc] if x.name == name), None)
        if prop is None:
            # the document declares it, the generated function has no argument for it: that *is* the violation
            fn = f"req_{alias[3:]}"
            why = f"document declares parameter {name!r} in {loc} for {method.upper()} {path}, but the generated function has no argument for it"
            return f'def {fn}() -> bool:\n    """\n    post: _\n    """\n    return missing_piece({why!r})\n', fn
        if "schema" not in p:
            raise SkeletonError(f"parameter {name!r} is described by `content`: no oracle for its serialisation")
        pyname = str(prop.python_name)
        py, wire = f"a{i}", f"w{i}"
        required = bool(p.get("required")) or loc == "path"
        ind = "    "
        sch = deref(doc, p["schema"])
        has_default = isinstance(sch, dict) and sch.get("default") is not None
        # an argument may be left out when the parameter is optional, or when its schema declares a default
        # (then the declared default is what has to be sent: C13 for parameters)
        can_omit = not required or has_default
        if can_omit:
            flag = g.arg("set", "bool")
            lines.append(f"    if {flag}:")
            ind = "        "
        alts = alternatives(doc, p["schema"])
        g.emit_py(p["schema"], prop, lines, ind, py, wire, pool_ints=loc in ("path", "header"))
        lines.append(f"{ind}kw[{pyname!r}] = {py}")
        if loc == "path":
            lines.append(f"{ind}exp_path[{name!r}] = {wire}")
        elif loc == "query":
            has_query = True
            lines.append(f"{ind}if {wire} is not None:")
            lines.append(f"{ind}    exp_params[{name!r}] = {wire}")
        elif loc == "header":
            has_header = True
            kind = next((a for a in alts if a["k"] != "null"), alts[0])
            lines.append(f"{ind}if {wire} is not None:")
            lines.append(f"{ind}    exp_headers[{name!r}] = {header_wire(kind, wire)}")
            if len(alts) > 1:
                lines.append(f"{ind}else:")
                lines.append(f"{ind}    exp_headers[{name!r}] = None")
        else:
            has_cookie = True
            lines.append(f"{ind}exp_cookies[{name!r}] = {wire}")
        if can_omit and has_default:
            dv = repr(sch["default"])
            lines.append("    else:")
            if loc == "path":
                lines.append(f"        exp_path[{name!r}] = {dv}")
            elif loc == "query":
                lines.append(f"        exp_params[{name!r}] = {dv}")
            elif loc == "header":
                kind = next((a for a in alts if a["k"] != "null"), alts[0])
                lines.append(f"        exp_headers[{name!r}] = {header_wire(kind, dv)}")
            else:
                lines.append(f"        exp_cookies[{name!r}] = {dv}")
    # body
    body_kind = "None"
    rb = op.get("requestBody")
    exp_body = "None"
    if rb is not None:
        rb = deref(doc, rb)
        bodies = list(ep.bodies)
        # the media types come from the *document*: the i-th media type the generator supports is the i-th body, and
        # it has to be sent under exactly the key the document uses (parameters such as "; charset=utf-8" included)
        doc_cts = [ct for ct, mt in (rb.get("content") or {}).items() if _body_kind_of(ct, OVERRIDES) is not None and isinstance(mt, dict) and mt.get("schema") is not None]
        if len(doc_cts) != len(bodies):
            fn = f"req_{alias[3:]}"
            why = f"{method.upper()} {path} declares the supported request media types {doc_cts}, the generated function handles {[b.content_type for b in bodies]}"
            return f'def {fn}() -> bool:\n    """\n    post: _\n    """\n    return missing_piece({why!r})\n', fn
        if len(bodies) >= 1:
            sel = None
            if len(bodies) > 1:
                sel = g.arg("body_sel", "int", f"0 <= $ < {len(bodies)}")
            for bi, b in enumerate(bodies):
                ind = "    "
                if sel:
                    lines.append(f"    {'if' if bi == 0 else 'elif'} {sel} == {bi}:")
                    ind = "        "
                doc_ct = doc_cts[bi]
                schema = rb["content"][doc_ct]["schema"]
                bt = str(b.body_type.value) if hasattr(b.body_type, "value") else str(b.body_type)
                if bt != _body_kind_of(doc_ct, OVERRIDES):
                    raise SkeletonError(f"body kind {bt} for {doc_ct}")
                if bt == "content":
                    imports.add("from io import BytesIO")
                    pay = g.arg("pay", "int", "0 <= $ < 2")
                    lines.append(f"{ind}raw = pick((b'', b'\\x00\\xffabc'), {pay})")
                    lines.append(f"{ind}stream = BytesIO(raw)")
                    lines.append(f"{ind}kw['body'] = File(payload=stream)")
                    lines.append(f"{ind}exp_body = ('content', stream, {doc_ct!r})")
                elif bt == "files":
                    g.pool_all = True
                    g.emit_py(_strip_binary(doc, schema), b.prop, lines, ind, "body_py", "body_wire", pool_ints=True)
                    g.pool_all = False
                    lines.append(f"{ind}kw['body'] = body_py")
                    # httpx writes the multipart header itself (boundary); a media type that is merely *treated as* multipart
                    # through content_type_overrides is still announced as itself
                    want_ct = None if doc_ct.split(";")[0].strip().lower() == "multipart/form-data" else doc_ct
                    lines.append(f"{ind}exp_body = ('files', body_wire, {want_ct!r})")
                else:
                    g.emit_py(schema, b.prop, lines, ind, "body_py", "body_wire")
                    lines.append(f"{ind}kw['body'] = body_py")
                    lines.append(f"{ind}exp_body = ({bt!r}, body_wire, {doc_ct!r})")
            if sel:
                lines.append("    else:")
                lines.append("        exp_body = None")
            exp_body = "exp_body"
            has_header = True
    for imp in g.imports:
        imports.add(imp)
    fn = f"req_{alias[3:]}"
    spec = {"method": method, "path": path, "has_query": has_query, "has_cookie": has_cookie, "has_header": has_header, "security": bool(op.get("security"))}
    ret = f"request_ok({alias}, kw, {spec!r}, exp_path, exp_params, exp_headers, exp_cookies, {exp_body}, AuthenticatedClient, UNSET)"
    return func_source(fn, g, lines, ret), fn


OVERRIDES: dict = {}  # content_type_overrides of the configuration the client under test was generated with (set by run())


def _body_kind_of(ct: str, overrides: dict) -> str | None:
    """httpx keyword the documented request media type has to be sent with (README: JSON, form, multipart, raw bytes);
    None = not supported (the generator warns and skips it)."""
    ct = overrides.get(ct, ct)
    base = ct.split(";")[0].strip().lower()
    if base == "application/json" or base.endswith("+json"):
        return "json"
    if base == "application/x-www-form-urlencoded":
        return "data"
    if base == "multipart/form-data":
        return "files"
    if base == "application/octet-stream":
        return "content"
    return None


def _strip_binary(doc: dict, schema: Any) -> Any:
    """Multipart bodies: file parts are exercised concretely by the oracle helper, the symbolic instance leaves them out."""
    s = copy.deepcopy(deref(doc, schema))
    props = s.get("properties") or {}
    for k in list(props):
        pk = deref(doc, props[k])
        if pk.get("format") == "binary":
            props[k] = {"const": b"\x00\xffabc"}
        elif pk.get("type") == "array" and deref(doc, pk.get("items") or {}).get("format") == "binary":
            props[k] = {**pk, "items": {"const": b"\x00\xffabc"}}
    s["additionalProperties"] = False
    return s


def _resp_condition(doc, package, path, method, op, ep, alias, list_max, str_max, imports) -> tuple[str, str]:
    g = ParamGen(doc, package, depth_max=1, list_max=list_max, str_max=str_max)
    documented = []
    # the body of an undocumented status is arbitrary bytes (empty, text, not valid UTF-8): it is only handed through
    junk = g.arg("junk", "int", "0 <= $ < 3")
    lines: list[str] = [f"    payload, text, content, kind = None, '', pick((b'', b'oops', b'caf\\xe9 \\xff\\x00'), {junk}), 'undocumented'"]
    status = g.arg("status", "int")
    codes: list[int] = []
    first = True
    for code, r in (op.get("responses") or {}).items():
        try:
            ci = int(code)
        except ValueError:
            continue
        r = deref(doc, r)  # a documented status the generated function does not handle is a violation, not a skip
        codes.append(ci)
        lines.append(f"    {'if' if first else 'elif'} {status} == {ci}:")
        first = False
        content = r.get("content") or {}
        chosen = None
        for ct, media in content.items():
            base = ct.split(";")[0].strip()
            if base == "application/json" or base.endswith("+json"):
                chosen = ("json", media.get("schema"))
            elif base.startswith("text/"):
                chosen = ("text", media.get("schema"))
            elif base == "application/octet-stream":
                chosen = ("bytes", media.get("schema"))
            if chosen:
                break
        if not content:
            lines.append("        kind = 'none'")
        elif chosen is None:
            raise SkeletonError(f"unsupported response content {list(content)}")
        elif chosen[1] is None:
            lines.append("        kind = 'none'")
        elif chosen[0] == "json":
            g.emit(chosen[1], lines, "        ", "payload", 0, False)
            lines.append("        kind = 'json'")
        elif chosen[0] == "text":
            t = g.arg("txt", "str", f"len($) <= {str_max}")
            lines.append(f"        text = {t}")
            lines.append("        kind = 'text'")
        else:
            pay = g.arg("pay", "int", "0 <= $ < 2")
            lines.append(f"        content = pick((b'', b'\\x00\\xffabc'), {pay})")
            lines.append("        kind = 'bytes'")
        documented.append(ci)
    extra = [c for c in (200, 418) if c not in codes][:1] + ([299] if UNREGISTERED_STATUS else [])
    pool = codes + extra
    g.pre.append(" or ".join(f"{status} == {c}" for c in pool))
    raise_flag = g.arg("raise_unexpected", "bool")
    fn = f"resp_{alias[3:]}"
    has_plain = "sync" if _has_parsed(ep) else ""
    ret = f"response_ok({alias}, {status}, kind, payload, text, content, {raise_flag}, _errors.UnexpectedStatus, {has_plain!r}, {_required_kwargs(doc, path, method, ep)})"
    return func_source(fn, g, lines, ret), fn


def _has_parsed(ep: Any) -> bool:
    return len(ep.responses) > 0 and ep.response_type() != "Any"


def _required_kwargs(doc: dict, path: str, method: str, ep: Any) -> str:
    """Concrete placeholder arguments for required parameters/body when the response path is the subject."""
    return "None"


# ================================================================================================ obligations
def probe_unregistered_status() -> bool:
    """Finding C04-F1: the generated _build_response raises ValueError for a status http.HTTPStatus does not register."""
    from . import gen
    from .skeletons import doc as mkdoc

    root = gen.scratch("verif-probe-")
    try:
        d = mkdoc(None, {"/p": {"get": {"operationId": "probe", "responses": {"204": {"description": "n"}}}}})
        gen.generate(d, root, "sk_probe")
        import importlib
        import sys

        sys.path.insert(0, str(root))
        try:
            mod = importlib.import_module("sk_probe.api.default.probe")
            from .e3_support import RecClient, Resp

            try:
                mod._build_response(client=RecClient(), response=Resp(299))
                return False
            except ValueError:
                return True
        finally:
            sys.path.remove(str(root))
            for k in [k for k in sys.modules if k.startswith("sk_probe")]:
                del sys.modules[k]
    finally:
        gen.cleanup(root)


PROBES = {"unregistered_status": probe_unregistered_status}


def run(family: str, skeleton: str, prefixes: list[str], include_unregistered: bool = False, finding_by_func: dict | None = None, timeout: int = 90, config: dict | None = None, known: list | None = None, tier: str = "quick", parallel: int = 8, replay_func: str = "vlib.e3:replay", bounds: dict | None = None, **_: object) -> dict:
    """One obligation = one skeleton document: regenerate the client with the real generator, build the schema-directed
    harness, run every condition whose name starts with one of `prefixes` under CrossHair."""
    import time

    from . import gen, xh
    from .common import REPO, fingerprint, result
    from . import skeletons as sk

    global UNREGISTERED_STATUS, OVERRIDES
    config = config or {}
    OVERRIDES = dict(config.get("content_type_overrides") or {})
    known = known or []
    live = []
    for e in known:
        pr = PROBES.get(e.get("class"))
        if pr is not None and pr():
            live.append(e)
    UNREGISTERED_STATUS = include_unregistered and not any(e["class"] == "unregistered_status" for e in live)
    docs = sk.model_skeletons() if family == "model" else sk.endpoint_skeletons()
    d = docs[skeleton]
    root = gen.scratch("verif-e3-")
    keep = False
    try:
        pkg = f"sk_{skeleton}"
        errs, pdir = gen.generate(d, root, pkg, **config)
        diag = [f"{e.header} {e.detail}"[:200] for e in errs]
        if any(getattr(e.level, "value", "") == "ERROR" for e in errs):
            return result("error", f"skeleton {skeleton} is rejected by the generator: {diag[:3]}")
        data, cfg = gen.parse(d, **config)
        thorough = tier == "thorough"
        if family == "model":
            src, funcs, meta = model_harness(d, pkg, data, depth_max=2 if thorough else 1, list_max=2, str_max=4 if thorough else 3)
        else:
            src, funcs, meta = endpoint_harness(d, pkg, data, cfg, list_max=2, str_max=3 if thorough else 2)
        funcs = [f for f in funcs if any(f.startswith(p) for p in prefixes) or f.startswith("absent_")]
        skipped = {k: v for k, v in meta.items() if any(x in v for x in ("skipped", "req_skipped", "resp_skipped"))}
        hp = root / f"h_{skeleton}.py"
        hp.write_text(src)
        t0 = time.time()
        broken = import_probe(hp, root, pkg)
        if broken is not None:
            inside, text = broken
            if not inside:
                return result("error", f"harness for skeleton {skeleton} cannot be loaded: {text[-600:]}")
            w = {"what": f"{skeleton}: the regenerated client cannot be imported", "input": "__import__", "observed": text[-600:], "reproduced": True, "replay_func": replay_func, "skeleton": skeleton, "family": family, "config": config, "harness_src": src}
            return result("violated", f"skeleton {skeleton}: generated package fails at import", witnesses=[w], cases=[f"{skeleton}/import"], queries=1, bounds={"document": f"skeleton '{skeleton}' ({family})", "config": config})
        recs = xh.check_file(hp, funcs, timeout, [str(root)], parallel=parallel)
        fb = finding_by_func or {}
        known_ids = {e["id"] for e in known}

        def classify(rec: dict):
            kid = fb.get(rec["func"])
            return kid if kid in known_ids else None

        res = xh.summarize(recs, hp, replay_func, what_prefix=f"{skeleton}/", classify=classify)
        for w in res["witnesses"]:
            w["skeleton"], w["family"], w["config"], w["harness_src"] = skeleton, family, config, src
            keep = keep or False
        res["known_hits"] = sorted({e["id"] for e in live} | set(res.get("known_hits", [])))
        res["bounds"] = {"document": f"skeleton '{skeleton}' ({family})", "strings": f"len <= {4 if thorough else 3}", "lists": "<= 2", "nesting": 2 if thorough else 1, "per_condition_timeout_s": timeout, "config": config, **(bounds or {})}
        res["functions"] = [fingerprint(REPO / "openapi_python_client" / "templates" / t) for t in ("model.py.jinja", "endpoint_module.py.jinja", "endpoint_macros.py.jinja")] + [fingerprint(p) for p in sorted((REPO / "openapi_python_client" / "templates" / "property_templates").glob("*.jinja"))]
        res["stubs"] = [
            "httpx: recording stub at client.get_httpx_client().request(**kwargs); the claim ends at the httpx API boundary",
            "date / date-time (naive only: CrossHair's datetime model cannot mix dateutil tz offsets) / uuid / enum leaves come from fixed pools",
            "union branches are value-disjoint by construction of the skeletons (first-match decoding is the generator's design)",
        ]
        if skipped:
            res["detail"] += f"; skipped by harness generator: {skipped}"
        if diag:
            res["detail"] += f"; generator diagnostics on this skeleton: {diag[:3]}"
            for w in res["witnesses"]:
                w["generator_diagnostics"] = diag
        res["cases"] = [f"{skeleton}/{c}" for c in res.get("cases", [])]
        res["solver_s"] = round(time.time() - t0, 1)
        return res
    finally:
        gen.cleanup(root)


def import_probe(hp: Any, root: Any, pkg: str) -> tuple[bool, str] | None:
    """Load the harness (and with it the regenerated client) in a plain interpreter.  None when it loads; otherwise
    (failure lies inside the generated package, traceback text)."""
    import subprocess

    from . import xh

    p = subprocess.run([xh.PYTHON, "-c", "import runpy, sys; runpy.run_path(sys.argv[1])", str(hp)], capture_output=True, text=True, timeout=300, env=xh._env([str(root)]), cwd=str(root))
    if p.returncode == 0:
        return None
    text = (p.stderr or p.stdout).strip()
    frames = [ln for ln in text.splitlines() if ln.lstrip().startswith("File ")]
    inside = bool(frames) and f"/{pkg}/" in frames[-1]
    return inside, text


def replay(w: dict) -> dict:
    """Regenerate the skeleton client from the current tree and re-run the recorded counterexample call concretely."""
    from . import gen, xh
    from . import skeletons as sk

    docs = sk.model_skeletons() if w["family"] == "model" else sk.endpoint_skeletons()
    root = gen.scratch("verif-replay-")
    try:
        gen.generate(docs[w["skeleton"]], root, f"sk_{w['skeleton']}", **(w.get("config") or {}))
        hp = root / "h_replay.py"
        hp.write_text(w["harness_src"])
        if w["input"] == "__import__":
            broken = import_probe(hp, root, f"sk_{w['skeleton']}")
            return {"reproduced": bool(broken and broken[0]), "observed": (broken[1][-600:] if broken else "imports")}
        return xh.replay_call(hp, w["input"], [str(root)])
    finally:
        gen.cleanup(root)


def skeleton_obs(prop: str, family: str, prefixes: list[str], tier: str, names: list[str] | None = None, config: dict | None = None, label: str = "", known_key: str | None = None, timeout: int | None = None) -> list:
    from .common import Ob
    from . import skeletons as sk

    docs = sk.model_skeletons() if family == "model" else sk.endpoint_skeletons()
    to = timeout or (90 if tier == "quick" else 400)
    obs = []
    for name in docs:
        if names and name not in names:
            continue
        params = {"family": family, "skeleton": name, "prefixes": prefixes, "timeout": to, "config": config or {}, "parallel": 8, "replay_func": "vlib.e3:replay"}
        if known_key:
            params["known_key"] = known_key
        obs.append(Ob(f"{label or family}:{name}", "vlib.e3:run", params, timeout_s=to * 3 + 120, engine="E3", cpus=4))
    return obs
