"""C04 — responses are decoded per documented status and media type."""
from __future__ import annotations

from ..common import Ob
from ..e3 import replay, skeleton_obs  # noqa: F401

META = {
    "level": "model_checking",
    "assumptions": ["responses are stand-ins for httpx.Response exposing status_code / json() / text / content / headers"],
}


def obligations(tier: str) -> list[Ob]:
    obs = skeleton_obs("C04", "endpoint", ["resp_"], tier, label="response", known_key="response")
    for o in obs:
        o.params["include_unregistered"] = True  # the status pool also holds a code http.HTTPStatus does not register
    return obs
