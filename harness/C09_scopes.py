"""C09: within one scope, different document names never silently map to one Python name, and every resulting name is
a valid identifier (real conflict-resolution code; names drawn from pools that contain the E1 collision witnesses)."""
import keyword
from pathlib import Path

from openapi_python_client import schema as oai
from openapi_python_client.config import Config, ConfigFile, MetaType
from openapi_python_client.parser.errors import ParseError, PropertyError
from openapi_python_client.parser.openapi import Endpoint
from openapi_python_client.parser.properties import Schemas, StringProperty
from openapi_python_client.parser.properties.model_property import _process_properties
from openapi_python_client.utils import ClassName, PythonIdentifier

CFG = Config.from_sources(ConfigFile(post_hooks=[]), MetaType.NONE, Path("doc.json"), "utf-8", True, None)
LOCS = [oai.ParameterLocation.QUERY, oai.ParameterLocation.PATH, oai.ParameterLocation.HEADER, oai.ParameterLocation.COOKIE]

# pool: reserved names and their disambiguated spellings, delimiter/case variants, neutral controls
PARAM_NAMES = ("client", "url", "client_query", "client-query", "url_path", "a_b", "a-b", "aB", "a", "x", "client_header", "a_b_query")
DELIM_TWINS = (("client_query", "client-query"), ("a_b", "a-b"))


def _valid(s) -> bool:
    return str(s).isidentifier() and not keyword.iskeyword(str(s))


def _pick(pool, i):
    for k in range(len(pool)):
        if i == k:
            return pool[k]
    return pool[0]


def _prop(name):
    return StringProperty(name=name, required=True, default=None, python_name=PythonIdentifier(name, "field_"), description=None, example=None)


def _endpoint(items):
    ep = Endpoint(path="/x", method="get", description=None, name="op", requires_security=False, tags=[])
    for name, loc in items:
        p = _prop(name)
        if loc == 0:
            ep.query_parameters.append(p)
        elif loc == 1:
            ep.path_parameters.append(p)
        elif loc == 2:
            ep.header_parameters.append(p)
        else:
            ep.cookie_parameters.append(p)
    return ep


def _params_ok(items) -> bool:
    res = _endpoint(items)._check_parameters_for_conflicts(config=CFG)
    if isinstance(res, ParseError):
        return True  # diagnosed
    names = [str(p.python_name) for _, p in res.iter_all_parameters()]
    if len(names) != len(items):
        return False
    for i in range(len(names)):
        if not _valid(names[i]) or names[i] in ("client", "url"):
            return False
        for j in range(i + 1, len(names)):
            if names[i] == names[j]:
                return False
    return True


_RAW: dict = {}
_SNAKE: dict = {}


def _raw(name) -> str:
    return _RAW[name]


def _snake(name) -> str:
    return _SNAKE[name]


def _delim_twins_same_loc(items) -> bool:
    """Known-finding class C09-F5: two names in one location with the same snake-cased identifier, at least one of
    whose raw spelling (what the resolution falls back to) is not an identifier."""
    for i in range(len(items)):
        for j in range(len(items)):
            if i < j and items[i][1] == items[j][1] and _snake(items[i][0]) == _snake(items[j][0]):
                if not _valid(_raw(items[i][0])) or not _valid(_raw(items[j][0])):
                    return True
    return False


def param_conflicts_2(n0: int, l0: int, n1: int, l1: int) -> bool:
    """
    pre: 0 <= n0 < 12 and 0 <= n1 < 12 and 0 <= l0 < 3 and 0 <= l1 < 3
    pre: not (n0 == n1 and l0 == l1)
    post: _
    """
    return _params_ok([(_pick(PARAM_NAMES, n0), l0), (_pick(PARAM_NAMES, n1), l1)])


def param_conflicts_2__excl(n0: int, l0: int, n1: int, l1: int) -> bool:
    """
    pre: 0 <= n0 < 12 and 0 <= n1 < 12 and 0 <= l0 < 3 and 0 <= l1 < 3
    pre: not (n0 == n1 and l0 == l1)
    post: _
    """
    items = [(_pick(PARAM_NAMES, n0), l0), (_pick(PARAM_NAMES, n1), l1)]
    if _delim_twins_same_loc(items):
        return True  # known finding C09-F5: same-location names differing only in delimiters fall back to the raw spelling
    return _params_ok(items)


SMALL = ("client", "client_query", "a_b", "a-b", "x", "url")


def param_conflicts_3__excl_thorough(n0: int, l0: int, n1: int, l1: int, n2: int, l2: int) -> bool:
    """
    pre: 0 <= n0 < 6 and 0 <= n1 < 6 and 0 <= n2 < 6 and 0 <= l0 < 2 and 0 <= l1 < 2 and 0 <= l2 < 2
    pre: not (n0 == n1 and l0 == l1) and not (n0 == n2 and l0 == l2) and not (n1 == n2 and l1 == l2)
    post: _
    """
    items = [(_pick(SMALL, n0), l0), (_pick(SMALL, n1), l1), (_pick(SMALL, n2), l2)]
    if _delim_twins_same_loc(items):
        return True
    return _params_ok(items)


# ------------------------------------------------------------------------------------------------ model attributes
PROP_NAMES = ("a_b", "a-b", "aB", "a b", "AB", "ab", "self", "self_", "x", "1x", "field_1x")
RAW_CLASS = (("a_b", "a-b"), ("a_b", "a b"), ("a-b", "a b"), ("a_b", "aB"), ("a-b", "aB"), ("a b", "aB"), ("self", "self_"), ("1x", "field_1x"))
STR_SCHEMA = oai.Schema.model_construct(type=oai.DataType.STRING, allOf=[], anyOf=[], oneOf=[], enum=None, const=None, schema_format=None, default=None, description=None, example=None, nullable=False, title=None)


def _props_ok(names) -> bool:
    data = oai.Schema.model_construct(properties={n: STR_SCHEMA for n in names}, required=None, allOf=[], additionalProperties=None)
    res = _process_properties(data=data, schemas=Schemas(), class_name=ClassName("M", ""), config=CFG, roots={"root"})
    if isinstance(res, PropertyError):
        return True
    props = res.optional_props + res.required_props
    if len(props) != len(names):
        return False
    pys = [str(p.python_name) for p in props]
    for i in range(len(pys)):
        if not _valid(pys[i]):
            return False
        for j in range(i + 1, len(pys)):
            if pys[i] == pys[j]:
                return False
    return True


def _raw_class(names) -> bool:
    """Known-finding class C09-F6: two attribute names with the same snake-cased identifier, at least one of whose raw
    spelling is not an identifier."""
    for i in range(len(names)):
        for j in range(len(names)):
            if i < j and _snake(names[i]) == _snake(names[j]):
                if not _valid(_raw(names[i])) or not _valid(_raw(names[j])):
                    return True
    return False


for _n in PARAM_NAMES + PROP_NAMES:  # computed once, outside symbolic execution, with the real functions
    _RAW[_n] = str(PythonIdentifier(_n, "field_", skip_snake_case=True))
    _SNAKE[_n] = str(PythonIdentifier(_n, "field_"))


def attr_conflicts_2(n0: int, n1: int) -> bool:
    """
    pre: 0 <= n0 < n1 < 11
    post: _
    """
    return _props_ok([_pick(PROP_NAMES, n0), _pick(PROP_NAMES, n1)])


def attr_conflicts_2__excl(n0: int, n1: int) -> bool:
    """
    pre: 0 <= n0 < n1 < 11
    post: _
    """
    names = [_pick(PROP_NAMES, n0), _pick(PROP_NAMES, n1)]
    if _raw_class(names):
        return True  # known finding C09-F6: colliding attribute names are "resolved" to their raw spelling
    return _props_ok(names)


def attr_conflicts_3__excl(n0: int, n1: int, n2: int) -> bool:
    """
    pre: 0 <= n0 < n1 < n2 < 11
    post: _
    """
    names = [_pick(PROP_NAMES, n0), _pick(PROP_NAMES, n1), _pick(PROP_NAMES, n2)]
    if _raw_class(names):
        return True
    return _props_ok(names)


# ------------------------------------------------------------------------------------------------ attributes through allOf
from openapi_python_client.parser.properties import build_schemas  # noqa: E402

_NARROW = (
    {"type": "string", "format": "date"},  # narrower kind: the merged property is rebuilt from the new declaration
    {"type": "string", "description": "again"},  # same kind: the inherited property is kept
    {"type": "string", "format": "date-time"},
)


def _allof_props_ok(names, redecl, narrow) -> bool:
    comps = {
        "Base": {"type": "object", "properties": {n: {"type": "string"} for n in names}},
        "Child": {"allOf": [{"$ref": "#/components/schemas/Base"}, {"type": "object", "properties": {names[redecl]: _pick(_NARROW, narrow), "own": {"type": "integer"}}}]},
    }
    s = build_schemas(components={k: oai.Schema.model_validate(v) for k, v in comps.items()}, schemas=Schemas(), config=CFG)
    child = s.classes_by_name.get(ClassName("Child", ""))
    if child is None:
        return len(s.errors) > 0  # rejected with a diagnostic
    props = (child.required_properties or []) + (child.optional_properties or [])
    if sorted(p.name for p in props) != sorted(set(names) | {"own"}):
        return False
    pys = [str(p.python_name) for p in props]
    return all(_valid(p) for p in pys) and len(set(pys)) == len(pys)


def attr_conflicts_allof__excl(n0: int, n1: int, redecl: int, narrow: int) -> bool:
    """
    A model composed with allOf that re-declares (narrows) an inherited property still has one distinct, valid
    attribute per document property — also when a sibling differs from the re-declared name only in case/delimiters.
    pre: 0 <= n0 < n1 < 11 and 0 <= redecl < 2 and 0 <= narrow < 3
    post: _
    """
    names = [_pick(PROP_NAMES, n0), _pick(PROP_NAMES, n1)]
    if _raw_class(names):
        return True  # known finding C09-F6
    return _allof_props_ok(names, redecl, narrow)
