"""C02 — model decode/encode is a lossless JSON round trip."""
from __future__ import annotations

from ..common import Ob
from ..e3 import replay, skeleton_obs  # noqa: F401  (replay is looked up by ./check --replay)

META = {
    "level": "model_checking",
    "assumptions": [
        "document shape is bounded by the skeleton family (vlib/skeletons.py); inputs are symbolic inside each skeleton",
        "formatted strings are in canonical form (C02's own quantifier); tz-aware date-times are outside the CrossHair claim",
    ],
}


def obligations(tier: str) -> list[Ob]:
    obs = skeleton_obs("C02", "model", ["rt_"], tier, label="roundtrip")
    obs += skeleton_obs("C02", "model", ["rt_"], tier, names=["enums", "unions"], config={"literal_enums": True}, label="roundtrip-literal-enums")
    return obs
