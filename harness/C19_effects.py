"""C19: the file-system effects of the real `Project.build` — what it deletes, creates and writes, and where.

The file system is a recording stub (`Path.mkdir`, `Path.write_text`, `shutil.rmtree`, `subprocess.run`), template
rendering is stubbed to the empty string (the property is about *where*, not *what*), and the run is decided for every
combination of metadata flavour x overwrite flag x "output directory already exists" x "post hooks configured",
all chosen by the solver.
"""
from pathlib import Path
from unittest import mock

import openapi_python_client as opc
from openapi_python_client import Project
from openapi_python_client.config import Config, ConfigFile, MetaType
from openapi_python_client.parser import GeneratorData

DOC = {
    "openapi": "3.1.0",
    "info": {"title": "Fx Api", "version": "1"},
    "paths": {
        "/a": {"get": {"operationId": "getA", "tags": ["first"], "responses": {"200": {"description": "d", "content": {"application/json": {"schema": {"$ref": "#/components/schemas/Thing"}}}}}}},
        "/b": {"post": {"operationId": "postB", "responses": {"204": {"description": "d"}}}},
    },
    "components": {"schemas": {"Thing": {"type": "object", "properties": {"kind": {"$ref": "#/components/schemas/Kind"}}}, "Kind": {"type": "string", "enum": ["x", "y"]}}},
}
OUT = Path("/nonexistent-verif/parent/out-dir")
METAS = (MetaType.NONE, MetaType.POETRY, MetaType.SETUP, MetaType.PDM)


def _project(meta, overwrite, hooks):
    cfg = Config.from_sources(ConfigFile(post_hooks=["true --flag"] if hooks else []), meta, Path("doc.json"), "utf-8", overwrite, OUT)
    data = GeneratorData.from_dict(DOC, config=cfg)
    # `models` / `enums` are one-shot generators; CrossHair runs `build()` once per path in one process
    data.models, data.enums = list(data.models), list(data.enums)
    return Project(openapi=data, config=cfg)


PROJECTS = {(m, o, h): _project(METAS[m], o, h) for m in range(4) for o in (False, True) for h in (False, True)}


class _T:
    def render(self, *a, **k):
        return ""


def _run(meta: int, overwrite: bool, exists: bool, hooks: bool):
    proj = None
    for (m, o, h), p in PROJECTS.items():
        if m == meta and o == (True if overwrite else False) and h == (True if hooks else False):
            proj = p
    log = []

    def fake_mkdir(self, mode=0o777, parents=False, exist_ok=False):
        if exists and self == proj.project_dir and not exist_ok:
            raise FileExistsError()
        log.append(("mkdir", self))

    def fake_write(self, data, encoding=None, errors=None, newline=None):
        log.append(("write", self))
        return 0

    def fake_rmtree(path, ignore_errors=False, onerror=None, **k):
        log.append(("rmtree", Path(path)))

    def fake_run(cmd, cwd=None, **k):
        log.append(("run", Path(cwd) if cwd is not None else None))
        return mock.Mock(returncode=0)

    patches = [
        mock.patch.object(Path, "mkdir", fake_mkdir),
        mock.patch.object(Path, "write_text", fake_write),
        mock.patch.object(opc.shutil, "rmtree", fake_rmtree),
        mock.patch.object(opc.shutil, "which", lambda name: "/bin/" + name),
        mock.patch.object(opc.subprocess, "run", fake_run),
        mock.patch.object(proj.env, "get_template", lambda *a, **k: _T()),
        mock.patch("builtins.print", lambda *a, **k: None),
    ]
    for p in patches:
        p.start()
    try:
        res = proj.build()
    finally:
        for p in reversed(patches):
            p.stop()
    return proj, log, res


def _inside(p: Path, root: Path) -> bool:
    return p == root or root in p.parents


def effects_stay_inside_and_spare_user_files(meta: int, overwrite: bool, exists: bool, hooks: bool) -> bool:
    """
    Everything created or written lies inside the output directory; the only directories ever deleted are the two the
    generator owns entirely (`<package>/models`, `<package>/api`); hooks run with the output directory as cwd.
    pre: 0 <= meta < 4
    post: _
    """
    proj, log, res = _run(meta, overwrite, exists, hooks)
    if exists and not overwrite:
        return log == [] and len(res) == 1
    owned = (proj.package_dir / "models", proj.package_dir / "api")
    for op, path in log:
        if op == "rmtree":
            if path not in owned:
                return False
        elif op == "run":
            if path != proj.project_dir:
                return False
        elif not _inside(path, proj.project_dir):
            return False
    return True


def written_set_is_the_documented_layout(meta: int, overwrite: bool, exists: bool) -> bool:
    """
    The files written are exactly the documented layout for the flavour: metadata files only beside the package and only
    for a flavour that has them, package files only inside the package directory, one module per model / enum /
    operation.
    pre: 0 <= meta < 4 and (overwrite or not exists)
    post: _
    """
    proj, log, res = _run(meta, overwrite, exists, False)
    pkg, top = proj.package_dir, proj.project_dir
    want = [pkg / "__init__.py", pkg / "types.py", pkg / "client.py", pkg / "errors.py", pkg / "models" / "__init__.py", pkg / "models" / "thing.py", pkg / "models" / "kind.py", pkg / "api" / "__init__.py", pkg / "api" / "first" / "__init__.py", pkg / "api" / "first" / "get_a.py", pkg / "api" / "default" / "__init__.py", pkg / "api" / "default" / "post_b.py"]
    if meta != 0:
        want += [pkg / "py.typed", top / "pyproject.toml", top / "README.md", top / ".gitignore"]
        if meta == 2:
            want.append(top / "setup.py")
        if pkg.parent != top:
            return False
    elif pkg != top:
        return False
    # (lists of path strings rather than sets of Paths: hashing a Path is not tolerated under CrossHair's tracing)
    return sorted(str(p) for op, p in log if op == "write") == sorted(str(p) for p in want)


def deletions_precede_recreation(meta: int, overwrite: bool, exists: bool) -> bool:
    """
    Each owned directory is deleted exactly once and re-created right away, before anything is written into it
    (otherwise stale modules of an earlier generation would survive, or fresh ones would be deleted).
    pre: 0 <= meta < 4 and (overwrite or not exists)
    post: _
    """
    proj, log, res = _run(meta, overwrite, exists, False)
    for owned in (proj.package_dir / "models", proj.package_dir / "api"):
        idx = [i for i, (op, p) in enumerate(log) if op == "rmtree" and p == owned]
        if len(idx) != 1:
            return False
        i = idx[0]
        if i + 1 >= len(log) or log[i + 1] != ("mkdir", owned):
            return False
        if any(_inside(p, owned) for op, p in log[:i]):
            return False
    return True
