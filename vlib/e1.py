"""Generic driver for E1 obligations: encode a real repo function on symbolic strings, validate the translation,
discharge capacity side conditions, then decide `exists input: violation` with the exclude-known-classes loop.

A *spec* (built by a property module) is a dict:
    fn, make_args(inputs)->(args,kwargs)      the real function and how the symbolic/concrete strings are passed
    n_inputs, names
    real(*texts) -> list                      the real function's observable results on concrete strings
    terms(enc) -> list                        the same observables as symbolic terms (for translator validation)
    violation(enc) -> z3 Bool                 the negated property over enc.inputs / enc.result / enc.raises
    concrete_violation(*texts) -> (bool, observed)   replay on the real code
    extra(enc) -> list of z3 constraints      input assumptions that are part of the statement (optional)
    classes: {name: (sym(inputs)->Bool, conc(*texts)->bool)}     known-finding classification predicates
    what: text
"""
from __future__ import annotations

import importlib
import time

import z3

from .bstr import core
from .bstr.core import Unsupported
from .bstr.interp import Encoded
from .bstr.validate import shadow_inputs, test_vectors, validate
from .common import fingerprint, result, seed


def run_spec(module: str, spec: str, n: int, args: dict | None = None, tier: str = "quick", known: list | None = None, solver_timeout_s: int = 240, exact: bool = True, cube: str | None = None, **_: object) -> dict:
    """`cube`: a string over {'a','u'} of length n (exact mode): position i is restricted to ASCII ('a') or to the
    non-ASCII part of Sigma ('u').  The 2^n cubes partition the input space and are independent obligations."""
    mod = importlib.import_module(module)
    sp = mod.SPECS[spec](**(args or {}))
    known = known or []
    n_inputs = sp.get("n_inputs", 1)
    t_all = time.time()
    queries, solver_s = 0, 0.0
    bounds = {"length": f"== {n}" if exact else f"<= {n}", "alphabet": f"Sigma ({len(core.SIGMA)} chars, all ASCII + 2 representatives per Unicode signature class; U+03A3, surrogates excluded)", "inputs": n_inputs}
    # 1. encode (shadow runs -> capacity guesses -> symbolic run)
    sh = shadow_inputs(n, n_inputs, seed())
    if exact:
        sh = [t for t in sh if all(len(x) == n for x in t)]
    in_cube = (lambda x: all((c.isascii()) == (k == "a") for c, k in zip(x, cube))) if cube else (lambda x: True)
    if cube:
        sh = [t for t in sh if all(in_cube(x) for x in t)]
    try:
        enc = Encoded(sp["fn"], sp["make_args"], n, n_inputs=n_inputs, shadow_inputs=sh, stubs=sp.get("stubs"), names=sp.get("names"), exact=exact)
    except Unsupported as e:
        return result("inconclusive", f"unsupported construct in the code under analysis: {e}", bounds=bounds)
    extra = sp["extra"](enc) if "extra" in sp else []
    if cube:
        assert exact and len(cube) == n
        bounds["cube"] = cube
        for v in enc.inputs:
            for i, k in enumerate(cube):
                extra.append(core.P_ASCII(v.ch[i]) if k == "a" else z3.Not(core.P_ASCII(v.ch[i])))
    # 2. capacity side conditions
    t0 = time.time()
    try:
        ok, rounds, _ = enc.check_caps(extra=extra, timeout_ms=solver_timeout_s * 1000)
    except Unsupported as e:
        return result("inconclusive", f"unsupported construct in the code under analysis: {e}", bounds=bounds)
    queries += rounds
    solver_s += time.time() - t0
    funcs = [fingerprint(f) for f in enc.funcs.values()]
    if not ok:
        return result("inconclusive", f"capacity side conditions not discharged within {solver_timeout_s}s/round ({rounds} rounds)", bounds=bounds, functions=funcs, queries=queries, solver_s=round(solver_s, 2))
    # 3. translator validation against the real function
    tv = test_vectors(n, seed(), extra=sp.get("test_extra"))
    if exact:
        tv = [t for t in tv if len(t) == n]
    if cube:
        import random as _r

        rr = _r.Random(seed())
        asc, non = [c for c in core.SIGMA if c.isascii()], [c for c in core.SIGMA if not c.isascii()]
        tv = [t for t in tv if in_cube(t)] + ["".join(rr.choice(asc if k == "a" else non) for k in cube) for _ in range(120)]
    if "domain_filter" in sp:
        tv = [t for t in tv if sp["domain_filter"](t)]
    if n_inputs == 1:
        tests = [(t,) for t in tv]
    else:
        import random

        rnd = random.Random(seed())
        tests = [tuple(rnd.choice(tv) for _ in range(n_inputs)) for _ in range(min(300, len(tv) * 2))] if tv else []
        if "pair_tests" in sp:
            tests += [t for t in sp["pair_tests"] if all(len(x) == n for x in t)] if exact else sp["pair_tests"]
    val = validate(enc.inputs, sp["terms"](enc), sp["real"], tests, side=enc.side_condition())
    if val["mismatches"]:
        return result("error", f"translator validation failed: encoding and real function disagree on {val['mismatches']}/{val['n']} inputs: {val['examples'][:2]}", bounds=bounds, functions=funcs)
    # 4. known findings: which recorded witnesses still reproduce -> their classes are assumed away
    live, hits = [], []
    for e in known:
        w = e["witness"]
        texts = w if isinstance(w, list) else [w]
        try:
            bad, _obs = sp["concrete_violation"](*texts)
        except Exception:
            bad = False
        if bad:
            hits.append(e["id"])
            if e["class"] not in live:
                live.append(e["class"])
    # 5. vacuity twin: the assumptions are satisfiable and the property is not violated everywhere
    viol = sp["violation"](enc)
    s = z3.Solver()
    s.set("timeout", solver_timeout_s * 1000)
    s.add(*enc.base)
    s.add(*extra)
    t0 = time.time()
    s.push()
    s.add(z3.Not(viol))
    twin = str(s.check())
    s.pop()
    queries += 1
    nontrivial = twin == "sat"
    # 6. the query
    if sp.get("probe"):
        # liveness probe of a recorded finding whose class *is* the violation condition: the solver produces a fresh
        # witness on every run; sat + replayed -> the finding is live (or, if nothing is recorded, a violation)
        s.add(viol)
        r = str(s.check())
        queries += 1
        solver_s += time.time() - t0
        common = dict(bounds=bounds, functions=funcs, queries=queries, solver_s=round(solver_s, 2), nontrivial=nontrivial, stubs=sp.get("stub_notes", []), cases=[f"{spec}[n={n}]"])
        if r == "unsat":
            return result("holds", "unsat: no input inside the bound violates it (recorded finding not live here)", **common)
        if r != "sat":
            return result("inconclusive", f"solver answered {r}", **common)
        m = s.model()
        texts = [core.decode(m, v) for v in enc.inputs]
        bad, obs = sp["concrete_violation"](*texts)
        if bad and known:
            return result("violated", f"sat: fresh witness {texts!r} -> {obs!r} (recorded finding is live)", known_hits=[e["id"] for e in known], samples=[{"witness": texts, "observed": obs}], **common)
        wit = {"what": sp["what"], "input": texts, "observed": obs, "reproduced": bool(bad), "replay_func": f"{module}:replay", "spec": spec, "spec_args": args or {}}
        return result("violated", f"sat: witness {texts!r} -> {obs!r}", witnesses=[wit], **common)
    excl = []
    for cname in live:
        sym, _ = sp["classes"][cname]
        excl.append(z3.Not(sym(enc.inputs)))
    s.add(viol)
    s.add(*excl)
    r = str(s.check())
    queries += 1
    solver_s += time.time() - t0
    common = dict(bounds=bounds, functions=funcs, queries=queries, solver_s=round(solver_s, 2), known_hits=hits, nontrivial=nontrivial, stubs=sp.get("stub_notes", []), cases=[f"{spec}[n={n}{',cube=' + cube if cube else ''}]"])
    sample = {"query": f"exists {n_inputs} string(s) of length {bounds['length']}: NOT ({sp['what']})", "assumed_away": live, "verdict": r, "translator_validation": f"{val['n']} inputs, 0 mismatches", "capacity_rounds": rounds, "result_capacity": getattr(enc.result, "cap", None)}
    if r == "unsat":
        return result("violated" if hits else "holds", f"unsat ({round(time.time() - t_all, 1)}s); assumed away {live}" if live else f"unsat ({round(time.time() - t_all, 1)}s)", samples=[sample], **common)
    if r != "sat":
        return result("inconclusive", f"solver answered {r} within {solver_timeout_s}s", samples=[sample], **common)
    m = s.model()
    texts = [core.decode(m, v) for v in enc.inputs]
    bad, obs = sp["concrete_violation"](*texts)
    sample["witness"] = texts
    wit = {"what": sp["what"], "input": texts, "observed": obs, "model_result": [core.decode(m, t) if isinstance(t, core.BStr) else str(t) for t in sp["terms"](enc)], "reproduced": bool(bad), "replay_func": f"{module}:replay", "spec": spec, "spec_args": args or {}}
    return result("violated", f"sat: witness {texts!r} -> {obs!r}", witnesses=[wit], samples=[sample], **common)


def replay_spec(module: str, w: dict) -> dict:
    mod = importlib.import_module(module)
    sp = mod.SPECS[w["spec"]](**w.get("spec_args", {}))
    bad, obs = sp["concrete_violation"](*w["input"])
    return {"reproduced": bool(bad), "observed": obs}


def spec_obs(module: str, spec: str, label: str, args: dict, known_key: str, ns: list[int], cube_from: int, timeout_s: int, must_upto: int = 99, extra_params: dict | None = None) -> list:
    """Obligations for one spec: one per exact length n; for n >= cube_from one per ASCII/non-ASCII cube (2^n)."""
    import itertools

    from .common import Ob

    obs = []
    for n in ns:
        cubes = [None] if n < cube_from else ["".join(t) for t in itertools.product("au", repeat=n)]
        for cube in cubes:
            params = {"module": module, "spec": spec, "n": n, "args": args, "known_key": known_key, "solver_timeout_s": max(30, timeout_s - 60), "cube": cube}
            params.update(extra_params or {})
            nm = f"{label}[n={n}{',' + cube if cube else ''}]"
            obs.append(Ob(nm, "vlib.e1:run_spec", params, timeout_s=timeout_s, must=n <= must_upto))
    return obs
