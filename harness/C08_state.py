"""C08: a failed builder step leaves every previously registered class in place (real property_from_data /
update_schemas_with_data, bad piece chosen symbolically from a pool, pre-state symbolic)."""
from pathlib import Path

from openapi_python_client import schema as oai
from openapi_python_client.config import Config, ConfigFile, MetaType
from openapi_python_client.parser.errors import PropertyError
from openapi_python_client.parser.properties import Schemas, build_schemas, property_from_data
from openapi_python_client.parser.properties.schemas import update_schemas_with_data

CFG = Config.from_sources(ConfigFile(post_hooks=[]), MetaType.NONE, Path("doc.json"), "utf-8", True, None)


def _s(d):
    return oai.Schema.model_validate(d)


BAD = (
    _s({"type": "array"}),
    _s({"type": "object", "properties": {"x": {"$ref": "#/components/schemas/Missing"}}}),
    _s({"type": "object", "properties": {"x": {"$ref": "https://remote/x.json"}}}),
    _s({"type": "object", "properties": {"x": {"type": "integer", "default": "zz"}}}),
    _s({"enum": ["a", 1]}),
    _s({"type": "object", "properties": {"e": {"type": "string", "enum": ["p"]}, "bad": {"type": "array"}}}),
    _s({"oneOf": [{"type": "string", "enum": ["u"]}, {"type": "array"}]}),
    _s({"allOf": [{"$ref": "#/components/schemas/Good0"}, {"$ref": "#/components/schemas/Missing"}]}),
)
GOOD = (
    ("Good0", _s({"type": "object", "properties": {"g": {"type": "integer"}}})),
    ("Good1", _s({"type": "string", "enum": ["r", "s"]})),
)


def _pick(pool, i):
    for k in range(len(pool)):
        if i == k:
            return pool[k]
    return pool[0]


def failed_step_keeps_classes(n_good: int, bad: int, as_component: bool) -> bool:
    """
    pre: 0 <= n_good <= 2 and 0 <= bad < 8
    post: _
    """
    schemas = build_schemas(components={k: v for k, v in GOOD[:n_good]}, schemas=Schemas(), config=CFG)
    before_ref = dict(schemas.classes_by_reference)
    before_name = dict(schemas.classes_by_name)
    data = _pick(BAD, bad).model_copy(deep=True)
    if as_component:
        res = update_schemas_with_data(ref_path="/components/schemas/Bad", data=data, schemas=schemas, config=CFG)
        if not isinstance(res, PropertyError):
            out = res
            failed = False
        else:
            out = schemas
            failed = True
    else:
        prop, out = property_from_data(name="p", required=True, data=data, schemas=schemas, parent_name="Parent", config=CFG)
        failed = isinstance(prop, PropertyError)
    for k, v in before_ref.items():
        if out.classes_by_reference.get(k) is not v:
            return False
    for k, v in before_name.items():
        if out.classes_by_name.get(k) is not v:
            return False
    if failed and "/components/schemas/Bad" in out.classes_by_reference:
        return False
    return True
