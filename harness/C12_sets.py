"""C12: no set the generator builds may leak its iteration order into the output.

Every `set(...)`, set display and set comprehension in the generator's own modules is rewritten at import time
(vlib.permset) to build a set whose iteration order is the permutation selected by a *symbolic* index: string-hash
randomisation becomes a solver variable.  The rendered modules and the diagnostics must equal the rendering under the
identity permutation for every value of that index."""
from vlib import permset

permset.install()

import copy  # noqa: E402
from pathlib import Path  # noqa: E402

from jinja2 import BaseLoader  # noqa: E402

from openapi_python_client import Project  # noqa: E402
from openapi_python_client.config import Config, ConfigFile, MetaType  # noqa: E402
from openapi_python_client.parser import GeneratorData  # noqa: E402

CFG = Config.from_sources(ConfigFile(post_hooks=[]), MetaType.NONE, Path("doc.json"), "utf-8", True, Path("/nonexistent/out"))
CFG_LE = Config.from_sources(ConfigFile(post_hooks=[], literal_enums=True), MetaType.NONE, Path("doc.json"), "utf-8", True, Path("/nonexistent/out"))


class NoFileLoader(BaseLoader):
    def __init__(self, inner):
        self.inner = inner

    def get_source(self, environment, template):
        src, _fn, upt = self.inner.get_source(environment, template)
        return src, None, upt

    def list_templates(self):
        return self.inner.list_templates()


def _ref(n):
    return {"$ref": f"#/components/schemas/{n}"}


_S, _I = {"type": "string"}, {"type": "integer"}
SCHEMAS = {
    "Alpha": {"type": "object", "properties": {"to-beta": _ref("Beta"), "to-gamma": _ref("Gamma"), "to-base": _ref("Base"), "kind": {"type": "string", "enum": ["x", "y", "z"]}}},
    "Beta": {"type": "object", "properties": {"back": _ref("Alpha"), "n": _I}},
    "Base": {"type": "object", "properties": {"b-one": _S, "bTwo": _I, "b.three": {"type": "string", "format": "date"}, "bFour": _ref("Beta")}},
    # inherited optional properties that the child makes mandatory (several at once), own requirements, a narrowed one
    "Gamma": {"allOf": [_ref("Base"), {"type": "object", "properties": {"g": _S, "items": {"type": "array", "items": _ref("Alpha")}, "bTwo": _I}, "required": ["bTwo", "b-one", "b.three", "g"]}]},
    "Delta": {"allOf": [_ref("Base"), {"required": ["bFour", "b-one", "bTwo"]}]},
    "Registry": {"type": "object", "additionalProperties": {"type": "object", "properties": {"ra": _ref("Alpha"), "rb": _ref("Beta"), "rd": _ref("Base"), "rg": _ref("Gamma")}}},
    "Colors": {"type": "string", "enum": ["red", "green", "blue", "dark blue"]},
    "Nums": {"type": "integer", "enum": [3, 1, 2]},
}
PATHS = {
    "/one/{id}": {
        "parameters": [{"name": "id", "in": "path", "required": True, "schema": _S}, {"name": "trace", "in": "header", "schema": _S}],
        "get": {
            "operationId": "getOne", "tags": ["t-b", "t-a"],
            "parameters": [{"name": "c", "in": "query", "schema": _ref("Colors")}, {"name": "n", "in": "query", "schema": _ref("Nums")}, {"name": "d", "in": "cookie", "schema": _S}],
            "responses": {"200": {"description": "ok", "content": {"application/json": {"schema": _ref("Alpha")}}}, "404": {"description": "no", "content": {"application/json": {"schema": _ref("Beta")}}}, "409": {"description": "c", "content": {"application/json": {"schema": _ref("Delta")}}}},
        },
    },
    "/two": {"post": {"operationId": "postTwo", "tags": ["t-a"], "requestBody": {"content": {"application/json": {"schema": _ref("Gamma")}, "multipart/form-data": {"schema": _ref("Base")}}}, "responses": {"200": {"description": "ok", "content": {"application/json": {"schema": _ref("Registry")}}}}}},
}
DOC = {"openapi": "3.1.0", "info": {"title": "order", "version": "1"}, "paths": PATHS, "components": {"schemas": SCHEMAS}}


def _setup(cfg):
    boot = GeneratorData.from_dict({"openapi": "3.1.0", "info": {"title": "order", "version": "1"}, "paths": {}}, config=cfg)
    proj = Project(openapi=boot, config=cfg)
    proj.env.loader = NoFileLoader(proj.env.loader)
    names = ("model.py.jinja", "str_enum.py.jinja", "int_enum.py.jinja", "literal_enum.py.jinja", "models_init.py.jinja", "endpoint_init.py.jinja")
    t = {n: proj.env.get_template(n) for n in names}
    t["endpoint_module.py.jinja"] = proj.env.get_template("endpoint_module.py.jinja", globals={"isbool": lambda obj: obj.get_base_type_string() == "bool"})
    for _t in proj.env.list_templates():
        if _t.startswith("property_templates/") or _t in ("helpers.jinja", "endpoint_macros.py.jinja"):
            proj.env.get_template(_t)
    return t


T = _setup(CFG)
T_LE = _setup(CFG_LE)


def _render(perm, literal=False):
    permset.PERM[0] = perm
    try:
        cfg, t = (CFG_LE, T_LE) if literal else (CFG, T)
        data = GeneratorData.from_dict(copy.deepcopy(DOC), config=cfg)
        out = {}
        models = list(data.models)
        enums = list(data.enums)
        for m in models:
            out[f"models/{m.class_info.module_name}.py"] = t["model.py.jinja"].render(model=m)
        for e in enums:
            if literal:
                out[f"models/{e.class_info.module_name}.py"] = t["literal_enum.py.jinja"].render(enum=e)
            else:
                out[f"models/{e.class_info.module_name}.py"] = t["int_enum.py.jinja" if e.value_type is int else "str_enum.py.jinja"].render(enum=e)
        out["models/__init__.py"] = t["models_init.py.jinja"].render(imports=[i for m in [*models, *enums] for i in [f"from .{m.class_info.module_name} import {m.class_info.name}"]], alls=[m.class_info.name for m in [*models, *enums]])
        for tag, coll in data.endpoint_collections_by_tag.items():
            for ep in coll.endpoints:
                out[f"api/{tag}/{ep.name}.py"] = t["endpoint_module.py.jinja"].render(endpoint=ep)
        errs = [str(e.detail) for e in data.errors] + [str(e.detail) for c in data.endpoint_collections_by_tag.values() for e in c.parse_errors]
        return out, errs
    finally:
        permset.PERM[0] = 0


CANON = {False: _render(0, False), True: _render(0, True)}
# vacuity guard: the rewritten generator really builds and iterates such sets on this document
assert permset.CREATED[0] > 20 and permset.ITERATED[0] > 5 and sum(permset.REWRITTEN.values()) > 15, (permset.CREATED, permset.ITERATED, permset.REWRITTEN)


def _concrete(p, hi):
    """Fork once per value of the symbolic index (if-chain), so that the permutation arithmetic inside every set
    iteration runs on a concrete integer: one path per index value instead of solver calls at each of ~100 iterations."""
    for k in range(hi):
        if p == k:
            return k
    return 0


def every_set_iteration_order(p: int, literal: bool) -> bool:
    """
    pre: 1 <= p < 5
    post: _
    """
    out, errs = _render(_concrete(p, 5) * 5 + 1, True if literal else False)
    want, want_errs = CANON[True if literal else False]
    return out == want and errs == want_errs == []


def _thorough(p, literal):
    out, errs = _render(_concrete(p, 24), literal)
    want, want_errs = CANON[literal]
    return out == want and errs == want_errs == []


def every_set_iteration_order_a_thorough(p: int) -> bool:
    """
    pre: 1 <= p < 12
    post: _
    """
    return _thorough(p, False)


def every_set_iteration_order_b_thorough(p: int) -> bool:
    """
    pre: 12 <= p < 24
    post: _
    """
    return _thorough(p, False)


def every_set_iteration_order_c_thorough(p: int) -> bool:
    """
    pre: 1 <= p < 12
    post: _
    """
    return _thorough(p, True)


def every_set_iteration_order_d_thorough(p: int) -> bool:
    """
    pre: 12 <= p < 24
    post: _
    """
    return _thorough(p, True)
