"""C05 — document text is only ever data, never code."""
from __future__ import annotations

from ..common import Ob

META = {
    "level": "model_checking",
    "assumptions": ["payloads longer than K and characters outside Sigma are outside the E1 claims; custom templates are outside every claim"],
}


def obligations(tier: str) -> list[Ob]:
    q = tier == "quick"
    obs: list[Ob] = []
    parts = 12
    for part in range(parts):
        obs.append(Ob(f"replay_injection[{part}/{parts}]", "vlib.inject:injection_sweep", {"part": part, "parts": parts, "known_key": "injection"}, timeout_s=1200 if q else 3000, engine="replay", cpus=1))
    from ..e1 import spec_obs

    M = "vlib.props.C05"
    K = 4 if q else 6
    to = 400 if q else 3000
    from ..e2 import harness_ob

    obs.append(
        harness_ob(
            "attribute_contracts", "C05_attrs.py", tier, timeout=300 if q else 1200, cpus=5, replay_func="vlib.e2:replay",
            encoded=["openapi_python_client.parser.properties:property_from_data", "openapi_python_client.parser.properties:_property_from_ref", "openapi_python_client.parser.openapi:Endpoint.from_data", "openapi_python_client.parser.properties.enum_property:EnumProperty.values_from_list", "openapi_python_client:Project.__init__"],
            stubs=["utils.PythonIdentifier / snake_case / kebab_case -> fixed identifier (identifier derivation is decided by E1; the subject here is that the escape is applied on every constructor route)"],
            bounds={"document text": "symbolic str, len <= 2 (names on the four reference routes, enum values; thorough: len <= 3 on those routes) / <= 3 (summary, description, title, version)", "property routes": "4 (string, $ref to enum, $ref to model, allOf wrapper); the other six kinds of schema take the same code path after the $ref / wrapper shortcut (CrossHair does not finish on them)"},
        )
    )
    obs.append(Ob("lexer_validation", "vlib.props.C05:lexer_validation", {}, timeout_s=900, engine="E4"))
    # the docstring macro itself (descriptions, examples, titles reach it unescaped): the real helpers.jinja source is
    # evaluated symbolically, every path's output must be exactly one string literal
    for n in range(0, (6 if q else 10) + 1):
        obs.append(Ob(f"macro_safe_docstring[n={n}]", "vlib.props.C05:macro_docstring", {"n": n, "known_key": "macro_safe_docstring", "solver_timeout_s": 240 if q else 1500}, timeout_s=400 if q else 2000, engine="E1"))
    for spec in ("rse_in_dq", "rse_in_docstring", "rse_in_toml", "string_default"):
        obs += spec_obs(M, spec, spec, {}, "kernel_" + spec, list(range(0, (K if spec != "string_default" else min(K, 4)) + 1)), 99, to)
    return obs


# ================================================================================================ E1 + E4 obligations
def _spec_rse_in_dq() -> dict:
    import z3

    from openapi_python_client import utils

    from .. import lexers
    from ..bstr import core
    from ..findings import CLASSES

    def violation(enc):
        safe, dec, cplx = lexers.py_string(core.as_bstr(enc.result), '"')
        return z3.Not(z3.And(safe, z3.Not(cplx), core.eq(dec, enc.inputs[0])))

    def cv(p):
        body = utils.remove_string_escapes(p)
        ok, dec = lexers.real_py_string(body, '"')
        return (not ok or dec != p, f'"{body}" -> ' + (repr(dec) if ok else "not one string literal"))

    return {
        "fn": utils.remove_string_escapes,
        "make_args": lambda i: ([i[0]], {}),
        "real": lambda p: [utils.remove_string_escapes(p)],
        "terms": lambda enc: [enc.result],
        "violation": violation,
        "concrete_violation": cv,
        "classes": CLASSES,
        "what": 'the text, escaped by remove_string_escapes and placed between double quotes ("{{ name }}": property/parameter names, enum values, summaries), is exactly one string literal that decodes to the original text',
        "stub_notes": ["consumer model: vlib.lexers.py_string, validated against compile()/tokenize on all hostile strings of length <= 3"],
    }


def _spec_rse_in_docstring() -> dict:
    import z3

    from openapi_python_client import utils

    from .. import lexers
    from ..bstr import core
    from ..findings import CLASSES

    def violation(enc):
        content = core.as_bstr(enc.result)
        raw = core.contains_char(content, "\\")  # helpers.jinja: {% if '\\' in content %} r""" ... """
        safe, cplx = lexers.py_docstring(content, raw)
        return z3.Not(z3.And(safe, z3.Not(cplx)))

    def cv(p):
        body = utils.remove_string_escapes(p)
        ok = lexers.real_py_docstring(body, "\\" in body)
        return (not ok, "docstring does not stay one literal" if not ok else "ok")

    return {
        "fn": utils.remove_string_escapes,
        "make_args": lambda i: ([i[0]], {}),
        "real": lambda p: [utils.remove_string_escapes(p)],
        "terms": lambda enc: [enc.result],
        "violation": violation,
        "concrete_violation": cv,
        "classes": CLASSES,
        "what": "an operation summary/description, escaped by remove_string_escapes and placed in safe_docstring's (raw or plain) triple-quoted docstring, stays inside that one literal",
        "stub_notes": ["consumer model: vlib.lexers.py_docstring (raw/non-raw choice read as `'\\\\' in content` from helpers.jinja), validated against compile()"],
    }


def _spec_rse_in_toml() -> dict:
    import z3

    from openapi_python_client import utils

    from .. import lexers
    from ..bstr import core
    from ..findings import CLASSES

    PRE = "A client library for accessing "

    def kernel(title):
        return utils.remove_string_escapes(f"A client library for accessing {title}")

    def violation(enc):
        safe, dec, cplx = lexers.toml_basic(core.as_bstr(enc.result))
        return z3.Not(z3.And(safe, z3.Not(cplx), core.eq(dec, core.concat([PRE, enc.inputs[0]]))))

    def cv(p):
        body = kernel(p)
        ok, dec = lexers.real_toml_basic(body)
        return (not ok or dec != PRE + p, f'description = "{body}" -> ' + (repr(dec) if ok else "invalid TOML"))

    import sys

    mod = sys.modules[__name__]
    if not hasattr(mod, "_toml_kernel"):
        # the call site in Project.__init__ (openapi_python_client/__init__.py:86-88), isolated as a function so that
        # the interpreter can walk it; its text is checked against the real source below
        src = "def _toml_kernel(title):\n    return utils.remove_string_escapes(f\"A client library for accessing {title}\")\n"
        ns = {"utils": utils}
        exec(src, ns)  # noqa: S102
        import inspect
        import linecache

        linecache.cache["<toml_kernel>"] = (len(src), None, src.splitlines(True), "<toml_kernel>")
        fn = ns["_toml_kernel"]
        fn.__module__ = "openapi_python_client._verif_callsite"
        import openapi_python_client as opc

        real_src = inspect.getsource(opc.Project.__init__)
        if 'utils.remove_string_escapes(' not in real_src or 'f"A client library for accessing {self.openapi.title}"' not in real_src:
            raise RuntimeError("call site of package_description changed: update the isolated kernel")
        code = compile(src, "<toml_kernel>", "exec")
        exec(code, ns)  # noqa: S102
        fn = ns["_toml_kernel"]
        fn.__module__ = "openapi_python_client._verif_callsite"
        mod._toml_kernel = fn
    return {
        "fn": mod._toml_kernel,
        "make_args": lambda i: ([i[0]], {}),
        "real": lambda p: [kernel(p)],
        "terms": lambda enc: [enc.result],
        "violation": violation,
        "concrete_violation": cv,
        "classes": CLASSES,
        "what": 'the package description (remove_string_escapes("A client library for accessing " + title)) inside the TOML basic string of pyproject.toml is one valid string that decodes to the original text',
        "stub_notes": ["consumer model: vlib.lexers.toml_basic, validated against tomllib", "the call site Project.__init__:86-88 is isolated as a one-line function whose text is checked against the real source on every run"],
    }


def _spec_string_default() -> dict:
    import z3

    from openapi_python_client.parser.properties.string import StringProperty

    from .. import lexers
    from ..bstr import core
    from ..findings import CLASSES

    def code_of(res):
        return core.as_bstr(res.python_code)

    def violation(enc):
        code = code_of(enc.result)
        q_is_dq = code.ch[0] == core.C('"')
        body = core.drop_last(core.drop_first(code, 1), 1)
        s1, d1, c1 = lexers.py_string(body, "'")
        s2, d2, c2 = lexers.py_string(body, '"')
        safe = z3.If(q_is_dq, s2, s1)
        dec = core.ite_str(q_is_dq, d2, d1)
        cplx = z3.If(q_is_dq, c2, c1)
        shape = z3.And(z3.UGE(code.n, core.lv(2)), z3.Or(code.ch[0] == core.C('"'), code.ch[0] == core.C("'")), core.last_char(code) == code.ch[0])
        return z3.Not(z3.And(shape, safe, z3.Or(cplx, core.eq(dec, enc.inputs[0]))))

    def cv(p):
        import ast

        v = StringProperty.convert_value(p)
        try:
            val = ast.literal_eval(v.python_code)
        except Exception as e:
            return True, f"{v.python_code} is not a literal: {e}"
        return (val != p, f"{v.python_code} denotes {val!r}")

    return {
        "fn": StringProperty.convert_value,
        "make_args": lambda i: ([i[0]], {}),
        "real": lambda p: [StringProperty.convert_value(p).python_code],
        "terms": lambda enc: [code_of(enc.result)],
        "violation": violation,
        "concrete_violation": cv,
        "classes": CLASSES,
        "what": "the python_code of a string default (repr(remove_string_escapes(v))) is exactly one string literal and denotes v",
        "stub_notes": ["repr() of a str is modelled (quote choice + escape table) and validated against CPython on every run; fidelity is only decided for values whose repr uses no escape other than \\\\ \\' \\\""],
    }


SPECS = {"rse_in_dq": _spec_rse_in_dq, "rse_in_docstring": _spec_rse_in_docstring, "rse_in_toml": _spec_rse_in_toml, "string_default": _spec_string_default}


def replay(w: dict) -> dict:
    from ..e1 import replay_spec

    return replay_spec("vlib.props.C05", w)


def lexer_validation(tier: str = "quick", known: list | None = None, **_: object) -> dict:
    from .. import lexers
    from ..common import result

    r = lexers.validate(3 if tier == "quick" else 4)
    if r["mismatches"]:
        return result("error", f"lexer models disagree with CPython/tomllib on {r['mismatches']} strings: {r['examples'][:3]}")
    return result("holds", f"lexer models agree with compile()/tokenize/tomllib on all {r['strings']} hostile strings", queries=r["strings"], cases=["lexer-validation"], samples=[r])


# ================================================================================================ the docstring macro
def _real_macro_literal(content: str, omit: bool):
    """Render the real macro with jinja2 and judge the text with CPython: (ok, rendered, why)."""
    import ast
    import warnings

    from .. import jinja_sym as js

    def one(c):
        text = js.render_real("helpers.jinja", "safe_docstring", content=c, omit_if_empty=omit)
        if text == "":
            return text, ""
        with warnings.catch_warnings():
            warnings.simplefilter("ignore")
            try:
                tree = compile(text + "\n", "t", "exec", flags=ast.PyCF_ONLY_AST)
            except (SyntaxError, ValueError) as e:
                return text, e
        if len(tree.body) == 1 and isinstance(tree.body[0], ast.Expr) and isinstance(tree.body[0].value, ast.Constant) and isinstance(tree.body[0].value.value, str):
            import io
            import tokenize

            try:
                n_str = sum(1 for t in tokenize.generate_tokens(io.StringIO(text + "\n").readline) if t.type == tokenize.STRING)
            except (tokenize.TokenError, IndentationError) as e:
                return text, SyntaxError(str(e))
            if n_str == 1:  # implicitly concatenated literals mean the text left the docstring
                return text, tree.body[0].value.value
        return text, SyntaxError("not a single string literal expression")

    text, val = one(content)
    if isinstance(val, Exception):
        return False, text, f"{type(val).__name__}: {val}"
    if text == "":
        return True, text, "omitted"
    # the literal has to *contain* the text: a sentinel appended to the content must extend the decoded value
    _, val2 = one(content + "Z")
    if isinstance(val2, Exception) or not isinstance(val2, str) or len(val2) != len(val) + 1:
        return False, text, "the text is not wholly inside the literal (sentinel test)"
    return True, text, "one literal"


def macro_docstring(n: int, tier: str = "quick", known: list | None = None, solver_timeout_s: int = 240, **_: object) -> dict:
    """For every content string of length n over Sigma and both values of omit_if_empty: whatever path
    `safe_docstring` (templates/helpers.jinja, evaluated symbolically from its jinja2 node tree) takes, its output is
    empty or exactly one (raw or plain) triple-quoted string literal."""
    import random
    import time

    import z3

    from .. import jinja_sym as js
    from .. import lexers
    from ..bstr import core
    from ..bstr.core import Unsupported
    from ..common import fingerprint, result, seed
    from ..findings import CLASSES

    known = known or []
    t_all = time.time()
    bounds = {"length": f"== {n}", "alphabet": f"Sigma ({len(core.SIGMA)} chars)", "omit_if_empty": "both"}
    _, tdir = js.template_env()
    funcs = [fingerprint(tdir / "helpers.jinja")]
    v, cons = core.sym_input(n, "c", exact=True)
    queries, solver_s = 0, 0.0
    try:
        runs = [(omit, js.run_macro("helpers.jinja", "safe_docstring", {"content": v, "omit_if_empty": omit})) for omit in (False, True)]
    except Unsupported as e:
        return result("inconclusive", f"unsupported construct in the macro: {e}", bounds=bounds, functions=funcs)
    # ---- per path: (omit, condition, output BStr, violation)
    table = []
    for omit, paths in runs:
        for p in paths:
            if not p.out:
                table.append((omit, p.cond, None, z3.BoolVal(False)))
                continue
            head, tail = p.out[0], p.out[-1]
            if not (isinstance(head, str) and isinstance(tail, str) and tail.endswith('"""') and (head.startswith('r"""') or head.startswith('"""'))):
                return result("inconclusive", f"output shape of the macro not recognised: starts {head!r}, ends {tail!r}", bounds=bounds, functions=funcs)
            raw = head.startswith("r")
            body = core.concat([head[4 if raw else 3:], *p.out[1:-1], tail[:-3]])
            safe, cplx = lexers.py_triple_body(body, z3.BoolVal(raw))
            table.append((omit, p.cond, core.concat(p.out), z3.Not(z3.And(safe, z3.Not(cplx)))))
    # ---- translator validation against jinja2 itself
    rnd = random.Random(seed())
    hostile = ['"', "\\", "'", " ", "\n", "a", "{", "#", "\t", "\0"]
    tests = {"".join(rnd.choice(hostile) for _ in range(n)) for _ in range(250)} | {"".join(rnd.choice(core.SIGMA) for _ in range(n)) for _ in range(60)}
    tests |= {t[:n] for t in ('"""', '\\"""', '"""\\', 'a"""b', '""""""', '\\', "   ", "", '"\\""', '\\"\\"\\"') if len(t[:n]) == n}
    mism = []
    for t in sorted(tests):
        subs = core.subst_for(v, t)
        for omit in (False, True):
            real = js.render_real("helpers.jinja", "safe_docstring", content=t, omit_if_empty=omit)
            taken = [(c, o) for (om, c, o, _) in table if om == omit and core.evaluate(c, subs) is True]
            if len(taken) != 1:
                mism.append((t, omit, f"{len(taken)} paths taken"))
                continue
            model = "" if taken[0][1] is None else core.evaluate(taken[0][1], subs)
            if model != real:
                mism.append((t, omit, model, real))
    if mism:
        return result("error", f"translator validation failed: symbolic evaluation of the macro and jinja2 disagree on {len(mism)} inputs: {mism[:2]}", bounds=bounds, functions=funcs)
    # ---- known classes that are still live are assumed away
    live, hits = [], []
    for e in known:
        w = e["witness"]
        text = w[0] if isinstance(w, list) else w
        ok, _, _ = _real_macro_literal(text, False)
        if not ok:
            hits.append(e["id"])
            if e["class"] not in live:
                live.append(e["class"])
    excl = [z3.Not(CLASSES[c][0]([v])) for c in live]
    s = z3.Solver()
    s.set("timeout", solver_timeout_s * 1000)
    s.add(*cons)
    t0 = time.time()
    s.push()
    s.add(z3.Or([z3.And(c, z3.Not(bad)) for (_, c, o, bad) in table if o is not None]))
    nontrivial = str(s.check()) == "sat"
    s.pop()
    queries += 1
    verdicts = []
    wit = []
    for i, (omit, c, o, bad) in enumerate(table):
        if o is None:
            continue
        s.push()
        s.add(c, bad, *excl)
        r = str(s.check())
        queries += 1
        verdicts.append(r)
        if r == "sat":
            text = core.decode(s.model(), v)
            ok, rendered, why = _real_macro_literal(text, omit)
            wit.append({"what": "safe_docstring does not keep the text inside one string literal", "input": {"content": text, "omit_if_empty": omit}, "observed": {"rendered": rendered, "verdict": why}, "reproduced": not ok, "replay_func": "vlib.props.C05:replay_macro"})
        s.pop()
    solver_s += time.time() - t0
    common = dict(bounds=bounds, functions=funcs, queries=queries, solver_s=round(solver_s, 2), known_hits=hits, nontrivial=nontrivial, cases=[f"macro_safe_docstring[n={n}]"], stubs=["consumer model: vlib.lexers.py_triple_body (validated against compile() by lexer_validation)", "jinja2's own parser supplies the node tree and the whitespace control; the evaluator is validated against jinja2 rendering on every run"])
    sample = {"query": f"exists content of length {n}, path p of safe_docstring: cond(p) and output(p) is not one string literal", "paths": len(table), "verdicts": verdicts, "assumed_away": live, "translator_validation": f"{2 * len(tests)} renderings, 0 mismatches"}
    if wit:
        return result("violated", f"sat: {wit[0]['input']!r} -> {wit[0]['observed']!r}", witnesses=wit[:3], samples=[sample], **common)
    if any(r != "unsat" for r in verdicts):
        return result("inconclusive", f"solver answered {verdicts}", samples=[sample], **common)
    return result("violated" if hits else "holds", f"unsat on all {len(verdicts)} paths ({round(time.time() - t_all, 1)}s)" + (f"; assumed away {live}" if live else ""), samples=[sample], **common)


def replay_macro(w: dict) -> dict:
    ok, rendered, why = _real_macro_literal(w["input"]["content"], w["input"]["omit_if_empty"])
    return {"reproduced": not ok, "observed": {"rendered": rendered, "verdict": why}}
