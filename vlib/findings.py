"""Classification predicates of known findings (see known_findings.json and DESIGN.md §4.3).

Each class is a pair (symbolic predicate over the symbolic inputs, concrete predicate over concrete inputs).  When a
recorded witness of a class still reproduces, the class's negation is added to the query as an assumption, so the
solver is asked for a violation *outside* every known class; anything it then finds is a new VIOLATION.
"""
from __future__ import annotations

import re

import z3

from .bstr import core
from .bstr.core import pred

_W = re.compile(r"\w")

P_W_NOT_XID = pred(lambda c: bool(_W.match(c)) and not ("a" + c).isidentifier())
P_DELIM = pred(lambda c: c in ". -")
P_DELIM_ALL = pred(lambda c: c in ". -_")
P_BACKSLASH = pred(lambda c: c == "\\")
P_LINEBREAK = pred(lambda c: c in "\n\r")
P_NUL = pred(lambda c: c == "\0")
P_DQUOTE = pred(lambda c: c == '"')
P_ALPHA_NOT_START = pred(lambda c: c.isalpha() and (not c.isidentifier() or not c.upper()[:1].isidentifier()))
P_TOML_CTRL = pred(lambda c: (ord(c) < 0x20 and c != "\t") or ord(c) == 0x7F)


def any_input_has(p):
    def sym(inputs):
        return z3.Or([core.any_char(v, p) for v in inputs])

    def conc(*texts):
        return any(p.concrete(c) for t in texts for c in t)

    return sym, conc


def lowered_has(p):
    """class over characters whose lower/upper/title image contains a character satisfying p"""
    q = pred(lambda c: any(p.concrete(d) for d in (c + c.lower() + c.upper() + c.title())))
    return any_input_has(q)


P_DIGIT_ANY = pred(lambda c: c.isdigit() or c.isdecimal() or c.isnumeric())

CLASSES = {
    # a title whose first surviving character is a digit gives a package name that starts with one; stated over the
    # input as "contains a digit-like character" (coarser than the defect, which keeps the exclusion sound)
    "has_digit": any_input_has(P_DIGIT_ANY),
    # characters matched by \w (so kept by utils.sanitize) that are not identifier characters, e.g. '²', '⓵'
    "w_not_xid": lowered_has(P_W_NOT_XID),
    # skip_snake_case=True keeps the delimiters '.', ' ', '-' that sanitize deliberately preserves
    "raw_keeps_delimiters": any_input_has(P_DELIM),
    "backslash": any_input_has(P_BACKSLASH),
    "linebreak": any_input_has(P_LINEBREAK),
    "nul": any_input_has(P_NUL),
    "dquote": any_input_has(P_DQUOTE),
    "toml_control": any_input_has(P_TOML_CTRL),
    # alphabetic characters that cannot *start* an identifier (e.g. U+0EB3 LAO VOWEL SIGN AM): enum member names get no prefix
    "alpha_not_xid_start": any_input_has(P_ALPHA_NOT_START),
}
