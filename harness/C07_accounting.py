"""C07 / C08 / C16: the operation loop accounts for every (path, method) under every tag it belongs to, a failing
operation does not disturb the others, generate_all_tags places the same endpoint under every tag (real
EndpointCollection.from_data; the per-operation builder is a nondeterministic stub)."""
from pathlib import Path
from unittest import mock

from openapi_python_client import schema as oai
from openapi_python_client.config import Config, ConfigFile, MetaType
from openapi_python_client.parser.errors import ParseError
from openapi_python_client.parser.openapi import Endpoint, EndpointCollection
from openapi_python_client.parser.properties import Parameters, Schemas

CFG_FIRST = Config.from_sources(ConfigFile(post_hooks=[]), MetaType.NONE, Path("doc.json"), "utf-8", True, None)
CFG_ALL = Config.from_sources(ConfigFile(post_hooks=[], generate_all_tags=True), MetaType.NONE, Path("doc.json"), "utf-8", True, None)
TAGSETS = (None, ["alpha"], ["beta", "alpha"], ["alpha", "gamma tag"], [])
OPS = (("/a", "get"), ("/a", "post"), ("/b/x", "get"))


def _pick(pool, i):
    for k in range(len(pool)):
        if i == k:
            return pool[k]
    return pool[0]


def _run(present, fails, tags, all_tags):
    """present[i], fails[i], tags[i] (index into TAGSETS) for the three operations of OPS."""
    paths = {}
    for i, (path, method) in enumerate(OPS):
        if not present[i]:
            continue
        op = oai.Operation.model_construct(tags=_pick(TAGSETS, tags[i]), operationId=f"op{i}", parameters=None, responses={}, request_body=None, security=None, summary=None, description=None)
        item = paths.get(path)
        if item is None:
            item = oai.PathItem.model_construct(get=None, put=None, post=None, delete=None, options=None, head=None, patch=None, trace=None, parameters=None)
            paths[path] = item
        object.__setattr__(item, method, op)

    def stub(*, data, path, method, tags, schemas, parameters, request_bodies, responses, config):
        i = OPS.index((path, method))
        if fails[i]:
            return ParseError(detail=f"bad op{i}"), schemas, parameters
        # a successful operation registers something (an inline model) in the Schemas it hands back
        grown = Schemas(classes_by_reference=dict(schemas.classes_by_reference), classes_by_name={**schemas.classes_by_name, f"Op{i}Inline": object()}, errors=list(schemas.errors))
        return Endpoint(path=path, method=method, description=None, name=f"op{i}", requires_security=False, tags=tags), grown, parameters

    cfg = CFG_ALL if all_tags else CFG_FIRST
    with mock.patch.object(Endpoint, "from_data", staticmethod(stub)):
        colls, out_schemas, _ = EndpointCollection.from_data(data=paths, schemas=Schemas(), parameters=Parameters(), request_bodies={}, responses={}, config=cfg)
    _LAST["schemas"] = out_schemas
    return colls


_LAST: dict = {}


def _expected_tags(i, tags, all_tags):
    ts = _pick(TAGSETS, tags[i]) or ["default"]
    ts = [t.replace(" ", "_") for t in ts]
    return ts if all_tags else ts[:1]


def _accounting(present, fails, tags, all_tags) -> bool:
    colls = _run(present, fails, tags, all_tags)
    for i, (path, method) in enumerate(OPS):
        exp = _expected_tags(i, tags, all_tags) if present[i] else []
        for tag, coll in colls.items():
            gen = [e for e in coll.endpoints if e.name == f"op{i}"]
            diag = [e for e in coll.parse_errors if f"{method.upper()} {path}" in e.header]
            if str(tag) in exp:
                if fails[i]:
                    if gen or len(diag) != 1:
                        return False
                elif len(gen) != 1 or diag:
                    return False
            elif gen or diag:
                return False
        for t in exp:
            if t not in [str(k) for k in colls]:
                return False
    # what the successful operations registered survives, whatever failed next to them (same path or not)
    for i in range(3):
        if present[i] and not fails[i] and f"Op{i}Inline" not in _LAST["schemas"].classes_by_name:
            return False
    # generate_all_tags: the very same endpoint object under every tag
    if all_tags:
        for i in range(3):
            objs = [e for c in colls.values() for e in c.endpoints if e.name == f"op{i}"]
            for o in objs:
                if o is not objs[0]:
                    return False
    return True



def accounting_tags(f0: bool, f1: bool, f2: bool, t0: int, t1: int, all_tags: bool) -> bool:
    """
    pre: 0 <= t0 < 5 and 2 <= t1 < 5
    post: _
    """
    return _accounting([True, True, True], [f0, f1, f2], [t0, t1, 2], all_tags)


def accounting_presence(p0: bool, p1: bool, p2: bool, f0: bool, f1: bool, f2: bool, all_tags: bool) -> bool:
    """
    post: _
    """
    return _accounting([p0, p1, p2], [f0, f1, f2], [3, 0, 2], all_tags)


def containment(f0: bool, f1: bool, f2: bool, t0: int, t1: int, t2: int) -> bool:
    """
    The endpoints generated for the operations that do not fail are the same whether or not the failing ones are there.
    pre: 1 <= t0 < 3 and 1 <= t1 < 3 and 1 <= t2 < 3
    post: _
    """
    fails, tags = [f0, f1, f2], [t0, t1, t2]
    with_bad = _run([True, True, True], fails, tags, False)
    without = _run([not f0, not f1, not f2], [False, False, False], tags, False)
    a = sorted((str(t), e.name, e.path, e.method) for t, c in with_bad.items() for e in c.endpoints)
    b = sorted((str(t), e.name, e.path, e.method) for t, c in without.items() for e in c.endpoints)
    return a == b


# ------------------------------------------------------------------------------------------------ responses of one operation
_RESP_OK = oai.Response.model_validate({"description": "d", "content": {"application/json": {"schema": {"type": "integer"}}}})
_RESP_BAD = oai.Reference.model_validate({"$ref": "#/components/responses/Missing"})
_RKEYS = ("200", "404", "4XX", "default", "503", "299")
_BASE_EP = Endpoint(path="/x", method="get", description=None, name="op", requires_security=False, tags=[])


def responses_accounted(k0: int, k1: int, k2: int, bad: int) -> bool:
    """
    Every entry of an operation's `responses` map — whatever its key, wherever it stands — ends up either as a handled
    response or in a diagnostic that names it (real Endpoint._add_responses and response_from_data).
    pre: 0 <= k0 < 6 and 0 <= k1 < 6 and 0 <= k2 < 6 and 0 <= bad < 4
    post: _
    """
    b0, b1, b2, k3, b3 = bad == 0, bad == 1, bad == 2, k0, bad == 0
    data = {}
    for k, bad in ((k0, b0), (k1, b1), (k2, b2), (k3, b3)):
        data[_pick(_RKEYS, k)] = _RESP_BAD if bad else _RESP_OK
    ep, _ = Endpoint._add_responses(endpoint=_BASE_EP, data=data, schemas=Schemas(), responses={}, config=CFG_FIRST)
    handled = [int(r.status_code) for r in ep.responses]
    details = [e.detail or "" for e in ep.errors]
    if len(handled) + len(details) != len(data) or len(set(handled)) != len(handled):
        return False
    for key, resp in data.items():
        numeric = key in ("200", "404", "503")
        if numeric and resp is _RESP_OK:
            if int(key) not in handled:
                return False
        else:
            if numeric and int(key) in handled:
                return False
            if not any(key in d for d in details):
                return False
    return True


# ------------------------------------------------------------------------------------------------ schemas whose class names coincide
from openapi_python_client.parser.properties import build_schemas  # noqa: E402

_TWINS = (("PetOwner", "pet_owner"), ("A", "a"), ("AB", "a_b"), ("Item", "item"), ("X1", "x_1"))
_BODIES = (
    {"type": "object", "properties": {"n": {"type": "string"}}},
    {"type": "object", "properties": {"m": {"type": "integer"}}},
    {"type": "object", "properties": {"n": {"type": "string"}}, "description": "another"},
)
_SCH = tuple(oai.Schema.model_validate(b) for b in _BODIES)
_SCH_COPY = tuple(oai.Schema.model_validate(b) for b in _BODIES)  # equal by value, distinct objects
_USER = oai.Schema.model_validate({"type": "object", "properties": {"first": {"$ref": "#/components/schemas/__A__"}, "second": {"$ref": "#/components/schemas/__B__"}}})


def class_name_twins_are_never_merged_silently(pair: int, body1: int, body2: int, first_second: bool) -> bool:
    """
    Two component schemas whose derived class names coincide (PetOwner / pet_owner, ...) are two document items: either
    a diagnostic names one of them, or two distinct classes exist - whether or not their definitions are equal by
    value, in either declaration order.  (One generated class standing for both without a diagnostic is the violation.)
    pre: 0 <= pair < 5 and 0 <= body1 < 3 and 0 <= body2 < 3
    post: _
    """
    a, b = _pick(_TWINS, pair)
    sa, sb = _pick(_SCH, body1), _pick(_SCH_COPY, body2)
    comps = {a: sa, b: sb} if first_second else {b: sb, a: sa}
    s = build_schemas(components=comps, schemas=Schemas(), config=CFG_FIRST)
    ra, rb = s.classes_by_reference.get("/components/schemas/" + a), s.classes_by_reference.get("/components/schemas/" + b)
    text = " ".join(f"{e.header} {e.detail} {getattr(e, 'data', '')}" for e in s.errors)
    if ra is not None and rb is not None:
        return ra.class_info.name != rb.class_info.name and ra.class_info.module_name != rb.class_info.module_name
    return len(s.errors) >= 1 and (ra is not None or rb is not None)


# ------------------------------------------------------------------------------------------------ warnings of one operation accumulate
_OPS2 = {}
for _r in range(4):
    for _b in range(5):
        _resps = {"200": {"description": "ok", "content": {"application/json": {"schema": {"type": "integer"}}}}}
        if _r in (1, 3):
            _resps["default"] = {"description": "d", "content": {"application/json": {"schema": {"type": "string"}}}}
        if _r in (2, 3):
            _resps["404"] = {"$ref": "#/components/responses/Missing"}
        _op = {"operationId": "op", "responses": _resps}
        _content = {}
        if _b in (1, 2, 4):
            _content["application/json"] = {"schema": {"type": "object", "properties": {"a": {"type": "integer"}}}}
        if _b in (2, 3):
            _content["application/xml"] = {"schema": {"type": "string"}}
        if _b == 4:
            _content["image/png"] = {"schema": {"type": "string", "format": "binary"}}
            _content["application/x-www-form-urlencoded"] = {"schema": {"type": "object", "properties": {"f": {"type": "string"}}}}
        if _content:
            _op["requestBody"] = {"content": _content}
        _OPS2[(_r, _b)] = oai.Operation.model_validate(_op)


def operation_warnings_accumulate(resp: int, body: int) -> bool:
    """
    Endpoint.from_data (real, nothing stubbed): every response key that is not turned into a handled response and every
    request media type that is not turned into a body is named in the endpoint's diagnostics - also when both kinds of
    warning occur in one operation - and what is usable is generated.
    pre: 0 <= resp < 4 and 0 <= body < 5
    post: _
    """
    op = None
    for (r, b), v in _OPS2.items():
        if r == resp and b == body:
            op = v
    ep, _, _ = Endpoint.from_data(data=op, path="/x", method="post", tags=["t"], schemas=Schemas(), parameters=Parameters(), request_bodies={}, responses={}, config=CFG_FIRST)
    if isinstance(ep, ParseError):
        # an operation without any usable media type may be rejected as a whole, with a diagnostic
        return body == 3 and bool(ep.detail or ep.header)
    text = " ".join(f"{e.header} {e.detail}" for e in ep.errors)
    handled = sorted(int(r.status_code) for r in ep.responses)
    if handled != [200]:
        return False
    if resp in (1, 3) and "default" not in text:
        return False
    if resp in (2, 3) and "404" not in text and "Missing" not in text:
        return False
    cts = sorted(b.content_type for b in ep.bodies)
    want = {0: [], 1: ["application/json"], 2: ["application/json"], 3: [], 4: ["application/json", "application/x-www-form-urlencoded"]}
    for k, v in want.items():
        if body == k and cts != v:
            return False
    if body in (2, 3) and "application/xml" not in text:
        return False
    if body == 4 and "image/png" not in text:
        return False
    return True
