"""E4: Jinja guard partitions.  The boolean tests of the sibling `{% for property ... %}{% if ... %}` blocks of
model.py.jinja are read from the template's AST (jinja2.Environment.parse), translated to propositional formulas over
(required, default is none) and z3 decides that they partition the properties (each property is declared / emitted
exactly once) and that attributes without a default come first."""
from __future__ import annotations

import z3
from jinja2 import Environment, nodes

from .common import REPO, fingerprint, result

R, DN = z3.Bool("required"), z3.Bool("default_is_none")


def _expr(n: nodes.Node):
    if isinstance(n, nodes.And):
        return z3.And(_expr(n.left), _expr(n.right))
    if isinstance(n, nodes.Or):
        return z3.Or(_expr(n.left), _expr(n.right))
    if isinstance(n, nodes.Not):
        return z3.Not(_expr(n.node))
    if isinstance(n, nodes.Getattr) and isinstance(n.node, nodes.Name) and n.node.name == "property":
        if n.attr == "required":
            return R
        raise ValueError(f"unknown attribute property.{n.attr}")
    if isinstance(n, nodes.Test) and n.name == "none" and isinstance(n.node, nodes.Getattr) and n.node.attr == "default":
        return DN
    if isinstance(n, nodes.Compare) and isinstance(n.expr, nodes.Getattr):
        raise ValueError("comparison")
    raise ValueError(f"untranslatable guard {type(n).__name__} at line {n.lineno}")


def _property_guards(tree: nodes.Template) -> list[tuple[int, str, object]]:
    """(line, iterable text, guard formula) for every `for property in X: if guard:` in the template body."""
    out = []
    for loop in tree.find_all(nodes.For):
        if not (isinstance(loop.target, nodes.Name) and loop.target.name == "property"):
            continue
        ifs = [b for b in loop.body if isinstance(b, nodes.If)]
        if len(ifs) != 1:
            continue
        it = loop.iter
        if isinstance(it, nodes.Add):
            which = "all"
        elif isinstance(it, nodes.Getattr):
            which = it.attr
        else:
            which = "?"
        try:
            out.append((loop.lineno, which, _expr(ifs[0].test), bool(ifs[0].else_)))
        except ValueError:
            continue
    return out


def _valid(f) -> tuple[bool, object]:
    s = z3.Solver()
    s.add(z3.Not(f))
    r = s.check()
    return str(r) == "unsat", (s.model() if str(r) == "sat" else None)


def guard_partitions(tier: str = "quick", known: list | None = None, **_: object) -> dict:
    path = REPO / "openapi_python_client" / "templates" / "model.py.jinja"
    env = Environment(extensions=["jinja2.ext.loopcontrols"])
    tree = env.parse(path.read_text())
    guards = _property_guards(tree)
    all_loops = [g for g in guards if g[1] == "all" and not g[3]]
    queries, problems, samples = 0, [], []
    # attribute declarations: the first two sibling loops over all properties
    if len(all_loops) < 2:
        return result("error", f"could not locate the two attribute-declaration loops in model.py.jinja (found guards at lines {[g[0] for g in guards]})")
    (l1, _, t1, _), (l2, _, t2, _) = all_loops[0], all_loops[1]
    obligations = [
        (f"declaration guards (lines {l1}, {l2}) are exhaustive and mutually exclusive", z3.Xor(t1, t2)),
        (f"first declaration block (line {l1}) holds exactly the attributes without a default (required and default is none)", t1 == z3.And(R, DN)),
        (f"second declaration block (line {l2}) holds exactly the attributes that to_string() declares with a default", t2 == z3.Or(z3.Not(DN), z3.Not(R))),
    ]
    # field_dict emission: `if property.required` over all + `if not property.required` over optional ones
    req_loop = next((g for g in guards if g[1] == "all" and g[0] > l2 and not g[3]), None)
    opt_loop = next((g for g in guards if g[1] == "optional_properties"), None)
    if req_loop is None or opt_loop is None:
        return result("error", "could not locate the field_dict emission loops in model.py.jinja")
    # model invariant (parser): a property is in optional_properties iff it is not required
    obligations += [
        (f"to_dict: every property is written exactly once (required block line {req_loop[0]} / optional block line {opt_loop[0]})", z3.Xor(req_loop[2], z3.And(z3.Not(R), opt_loop[2]))),
        (f"to_dict: mandatory keys are written unconditionally (line {req_loop[0]})", req_loop[2] == R),
    ]
    pop = next((g for g in guards if g[3]), None)
    if pop is not None:
        obligations.append((f"from_dict: d.pop without default exactly for required properties (line {pop[0]})", pop[2] == R))
    for text, f in obligations:
        ok, model = _valid(f)
        queries += 1
        samples.append({"obligation": text, "verdict": "valid" if ok else f"counterexample {model}"})
        if not ok:
            problems.append({"what": text, "input": str(model), "observed": "guard formulas extracted from the template admit this (required, default) combination", "reproduced": True, "replay_func": "vlib.jinja_guards:replay"})
    # vacuity: the guards are not constant
    nontrivial = all(not _valid(t)[0] and not _valid(z3.Not(t))[0] for t in (t1, t2))
    return result("violated" if problems else "holds", f"{queries} propositional obligations over guards extracted from model.py.jinja", queries=queries, witnesses=problems, samples=samples[:4], functions=[fingerprint(path)], nontrivial=nontrivial, cases=[t for t, _ in obligations], bounds={"variables": "required, default is none (complete: 4 valuations)"})


def replay(w: dict) -> dict:
    r = guard_partitions()
    return {"reproduced": any(x["what"] == w["what"] for x in r["witnesses"]), "observed": [x["input"] for x in r["witnesses"]]}
