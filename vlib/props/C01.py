"""C01 — every generated client is a valid, importable Python package (decided through its mechanisms)."""
from __future__ import annotations

from ..common import Ob
from ..e2 import harness_ob

META = {
    "level": "model_checking",
    "assumptions": ["the whole-package statement is decided through its mechanisms (names, literals, guard partitions, import closure); the package-level compile/import run on the skeleton family is a replay gate, not a solver verdict; shapes outside the family are outside the claim"],
}


def replay(w: dict) -> dict:
    if w.get("spec"):
        from ..e1 import replay_spec

        return replay_spec("vlib.props.C09", w)
    if w.get("input") and isinstance(w["input"], dict) and "skeleton" in w["input"] and "meta" in w["input"]:
        from ..replay_checks import replay_importable

        return replay_importable(w)
    if "guard" in str(w.get("replay_func", "")):
        from ..jinja_guards import replay as rg

        return rg(w)
    from ..e2 import replay as r2

    return r2(w)


def obligations(tier: str) -> list[Ob]:
    from ..e1 import spec_obs

    q = tier == "quick"
    to = 420 if q else 3000
    obs: list[Ob] = []
    obs += spec_obs("vlib.props.C09", "pyident_valid", "names:pyident[field_]", {"prefix": "field_", "skip": False}, "pyident_valid", list(range(0, (3 if q else 4) + 1)), 4, to)
    obs += spec_obs("vlib.props.C09", "classname_valid", "names:classname[field_]", {"prefix": "field_"}, "classname_valid", list(range(0, (1 if q else 2) + 1)), 2, to)
    for o in obs:
        o.params["replay_func"] = "vlib.props.C01:replay"
    obs.append(Ob("guard_partitions", "vlib.jinja_guards:guard_partitions", {}, timeout_s=120, engine="E4"))
    obs.append(
        harness_ob(
            "no_dangling_sibling_import", "C08_removal.py", tier, timeout=120 if q else 600, cpus=2, replay_func="vlib.props.C01:replay",
            encoded=["openapi_python_client.parser.properties:_process_model_errors", "openapi_python_client.parser.properties:_propogate_removal"],
            bounds={"dependency graph": "all graphs on 3 nodes (4 thorough), arbitrary failing subset: no surviving class depends on a removed one"},
        )
    )
    obs.append(
        harness_ob(
            "dependencies_recorded_at_every_position", "C08_deps.py", tier, funcs=["dependants_are_removed", "rejected_duplicate_spares_the_existing_class"], timeout=400 if q else 1200, cpus=2, replay_func="vlib.props.C01:replay",
            encoded=["openapi_python_client.parser.properties:build_schemas", "openapi_python_client.parser.properties.union:UnionProperty.build"],
            bounds={"positions": 10, "failures": 3, "declaration orders": 6},
        )
    )
    obs.append(
        harness_ob(
            "scope_names_distinct", "C09_scopes.py", tier, funcs=["attr_conflicts_2__excl", "param_conflicts_2__excl"], timeout=240 if q else 900, cpus=2, replay_func="vlib.props.C01:replay",
            encoded=["openapi_python_client.parser.openapi:Endpoint._check_parameters_for_conflicts", "openapi_python_client.parser.properties.model_property:_process_properties"],
            stubs=["names from pools; the raw-fallback classes C09-F5/F6 are assumed away (recorded under C09)"],
        )
    )
    obs.append(
        harness_ob(
            "sibling_imports_defined", "C01_imports.py", tier, timeout=240 if q else 900, cpus=1, replay_func="vlib.props.C01:replay",
            encoded=["openapi_python_client.parser.properties.literal_enum_property:LiteralEnumProperty.get_imports", "openapi_python_client.parser.properties.enum_property:EnumProperty.get_imports", "openapi_python_client.parser.properties.model_property:ModelProperty.get_lazy_imports", "openapi_python_client.parser.properties.schemas:Class.from_string"],
            stubs=["class names from a pool that contains builtins/keywords (Type, List, Class, Format) and class_overrides with class and/or module names"],
            bounds={"names": 7, "kinds": "str enum / int enum / model", "overrides": 4, "enum style": "both"},
        )
    )
    obs.append(Ob("replay_importable_packages", "vlib.replay_checks:importable", {}, timeout_s=1500 if q else 5000, engine="replay", cpus=2))
    return obs
