"""C06 — every failure is a diagnostic; the generator never crashes or hangs."""
from __future__ import annotations

from ..common import Ob
from ..e2 import harness_ob, replay  # noqa: F401

META = {
    "level": "model_checking",
    "assumptions": [
        "document loaders (ruamel.yaml, json) and pydantic-core validation are not encoded: the claim starts at the typed model",
        "OS-level faults are outside the claim",
    ],
}


def obligations(tier: str) -> list[Ob]:
    q = tier == "quick"
    return [
        Ob("replay_loaders", "vlib.replay_checks:loaders", {"known_key": "replay_loaders"}, timeout_s=900, engine="replay", cpus=1),
        harness_ob(
            "exit_relation", "C06_exit.py", tier, funcs=["exit_relation_3"] + ([] if q else ["exit_relation_5"]), timeout=60 if q else 300, cpus=2,
            encoded=["openapi_python_client.cli:handle_errors"],
            stubs=["typer.secho/echo/style replaced by no-ops (output formatting is not the subject)"],
            bounds={"diagnostics": "<= 3 (quick) / <= 5 (thorough), each WARNING or ERROR, GeneratorError or ParseError"},
        ),
        harness_ob(
            "builders", "C06_builders.py", tier, timeout=150 if q else 600, cpus=8, parallel=12,
            encoded=[
                "openapi_python_client.parser.openapi:GeneratorData.from_dict",
                "openapi_python_client.parser.properties.int:IntProperty.convert_value",
                "openapi_python_client.parser.properties.float:FloatProperty.convert_value",
                "openapi_python_client.parser.properties.boolean:BooleanProperty.convert_value",
                "openapi_python_client.parser.properties.string:StringProperty.convert_value",
                "openapi_python_client.parser.properties.date:DateProperty.convert_value",
                "openapi_python_client.parser.properties.datetime:DateTimeProperty.convert_value",
                "openapi_python_client.parser.properties.uuid:UuidProperty.convert_value",
                "openapi_python_client.parser.properties.none:NoneProperty.convert_value",
                "openapi_python_client.parser.properties.any:AnyProperty.convert_value",
                "openapi_python_client.parser.properties.const:ConstProperty.build",
                "openapi_python_client.parser.properties:_create_schemas",
            ],
            stubs=[
                "OpenAPI.model_validate -> raises ValidationError (whole-document rejection path)",
                "update_schemas_with_data -> arbitrary success/failure table that may depend on how many components are already registered (termination of the retry loop is the subject)",
                "default values: symbolic JSON type; strings, ints and floats from pools (numeric grammar, non-finite values, E1 witnesses)",
            ],
            bounds={"components": 3, "string pool": 23, "int pool": 4, "float pool": 7},
        ),
        harness_ob(
            "enum_builders", "C06_enums.py", tier, timeout=150 if q else 600, cpus=4,
            finding_by_func={"enum_build_no_raise": "C06-F1"},
            encoded=["openapi_python_client.parser.properties.enum_property:EnumProperty.build", "openapi_python_client.parser.properties.enum_property:EnumProperty.values_from_list", "openapi_python_client.parser.properties.literal_enum_property:LiteralEnumProperty.build"],
            stubs=["enum values from a pool that contains case/delimiter twins, empty string, leading digits, non-identifier characters"],
            bounds={"values per enum": "<= 3", "value pool": 10},
        ),
        harness_ob(
            "reference_chains", "C20_refs.py", tier, timeout=120 if q else 400, cpus=1,
            encoded=["openapi_python_client.parser.bodies:_resolve_reference"],
            bounds={"reference table": "3 entries, each a reference / the body / dangling / absent"},
        ),
        harness_ob(
            "removal_terminates", "C08_removal.py", tier, timeout=120 if q else 600, cpus=2,
            encoded=["openapi_python_client.parser.properties:_process_model_errors", "openapi_python_client.parser.properties:_propogate_removal"],
            bounds={"dependency graph": "all graphs on 3 nodes incl. cycles (4 nodes thorough), arbitrary failing subset"},
        ),
    ]
