"""C14 — enumerations and constants admit exactly the declared values."""
from __future__ import annotations

from ..common import Ob
from ..e2 import harness_ob
from ..e3 import skeleton_obs

META = {"level": "model_checking", "assumptions": ["decode candidates come from pools: the members plus near misses (case variants, padded, prefixed, other JSON types)"]}


def replay(w: dict) -> dict:
    if w.get("spec"):
        from ..e1 import replay_spec

        return replay_spec("vlib.props.C14", w)
    if w.get("skeleton"):
        from ..e3 import replay as r3

        return r3(w)
    from ..e2 import replay as r2

    return r2(w)


def _vfl_common():
    import z3

    from openapi_python_client.parser.properties.enum_property import EnumProperty
    from openapi_python_client.parser.properties.schemas import Class

    from ..bstr import core

    CI = Class(name="C", module_name="c")

    def run_real(a, b):
        try:
            return EnumProperty.values_from_list([a, b], CI)
        except ValueError:
            return None

    def raised(enc):
        return z3.Or([core.FALSE] + [z3.BoolVal(c) if isinstance(c, bool) else c for c, _ in enc.raises])

    def real(a, b):
        r = run_real(a, b)
        return [r is None, None if r is None else len(r)]

    def terms(enc):
        return [raised(enc), enc.result.size()]

    base = {
        "fn": EnumProperty.values_from_list,
        "make_args": lambda i: ([[i[0], i[1]], CI], {}),
        "n_inputs": 2,
        "names": ["v0", "v1"],
        "real": real,
        "terms": terms,
        "pair_tests": [("a b", "a-b"), ("a", "A"), ("ab", "AB"), ("a", "b"), ("1a", "2b"), ("", "a"), ("a.", "a-"), ('a"', "b"), ("²a", "a²")],
    }
    return base, raised, run_real, core, z3


def _validate_patch(sp):
    # the driver compares `terms` with `real`; the size is only meaningful when nothing was raised
    real0, terms0 = sp["real"], sp["terms"]

    def real(a, b):
        r = real0(a, b)
        return [r[0], 0 if r[0] else r[1]]

    def terms(enc):
        import z3

        t = terms0(enc)
        from ..bstr import core

        return [t[0], z3.If(t[0], core.lv(0), t[1])]

    sp["real"], sp["terms"] = real, terms
    return sp


def spec_enum_member_names() -> dict:
    import keyword

    base, raised, run_real, core, z3 = _vfl_common()

    def violation(enc):
        bad = []
        for k, _, live in enc.result.entries:
            k = core.as_bstr(k)
            bad.append(z3.And(live, z3.Or(z3.Not(core.isidentifier(k)), core.iskeyword(k))))
        return z3.And(z3.Not(raised(enc)), z3.Or(bad))

    def cv(a, b):
        r = run_real(a, b)
        if r is None:
            return False, "raises ValueError"
        badk = [k for k in r if not (k.isidentifier() and not keyword.iskeyword(k))]
        return bool(badk), f"member names {list(r)}"

    from ..findings import CLASSES

    return _validate_patch({**base, "violation": violation, "concrete_violation": cv, "classes": CLASSES, "what": "every member name values_from_list derives from two string enum values is a non-keyword identifier"})


def spec_enum_values_verbatim() -> dict:
    base, raised, run_real, core, z3 = _vfl_common()
    BS = chr(92)

    def violation(enc):
        # when nothing is raised and nothing merged, the stored values are exactly the escaped listed values, in order
        ents = enc.result.entries
        ok = []
        for (k, v, live), inp in zip(ents, enc.inputs):
            ok.append(core.eq(core.as_bstr(v), core.replace_char(inp, '"', BS + '"')))
        return z3.And(z3.Not(raised(enc)), enc.result.size() == core.lv(2), z3.Not(z3.And(ok)))

    def cv(a, b):
        r = run_real(a, b)
        if r is None or len(r) != 2:
            return False, "raised / merged"
        want = [a.replace('"', BS + '"'), b.replace('"', BS + '"')]
        return list(r.values()) != want, f"stored {list(r.values())} for {[a, b]}"

    return _validate_patch({**base, "violation": violation, "concrete_violation": cv, "classes": {}, "what": "the wire value stored for each member is the listed value (escaped for the double-quoted literal of str_enum.py.jinja), in order"})


def spec_enum_raise_probe() -> dict:
    base, raised, run_real, core, z3 = _vfl_common()

    def cv(a, b):
        return (a != b and run_real(a, b) is None), "raises ValueError('Duplicate key ...')"

    return _validate_patch({**base, "probe": True, "violation": lambda enc: z3.And(z3.Not(core.eq(enc.inputs[0], enc.inputs[1])), raised(enc)), "concrete_violation": cv, "classes": {}, "what": "values_from_list never raises for two *different* values"})


def spec_enum_merge_probe() -> dict:
    base, raised, run_real, core, z3 = _vfl_common()

    def cv(a, b):
        r = run_real(a, b)
        return (a != b and r is not None and len(r) != 2), f"members {None if r is None else dict(r)}"

    return _validate_patch({**base, "probe": True, "violation": lambda enc: z3.And(z3.Not(core.eq(enc.inputs[0], enc.inputs[1])), z3.Not(raised(enc)), enc.result.size() != core.lv(2)), "concrete_violation": cv, "classes": {}, "what": "two different listed values never end up as one member"})


SPECS = {"enum_member_names": spec_enum_member_names, "enum_values_verbatim": spec_enum_values_verbatim, "enum_raise_probe": spec_enum_raise_probe, "enum_merge_probe": spec_enum_merge_probe}


def obligations(tier: str) -> list[Ob]:
    q = tier == "quick"
    obs = skeleton_obs("C14", "model", ["memb_", "rt_"], tier, names=["enums"], label="membership")
    obs += skeleton_obs("C14", "model", ["memb_", "rt_"], tier, names=["enums"], config={"literal_enums": True}, label="membership-literal-enums")
    nullable = {f: "C14-F2" for f in ("memb_HolderB_null_enum", "memb_HolderD_null_int_e", "memb_HolderD_opt_null_ref")}
    for o in obs:
        o.params["replay_func"] = "vlib.props.C14:replay"
        o.params["finding_by_func"] = nullable
        o.params["known_key"] = "membership"
    obs.append(
        harness_ob(
            "enum_builders", "C06_enums.py", tier, timeout=150 if q else 600, cpus=4, replay_func="vlib.props.C14:replay",
            finding_by_func={"enum_build_no_raise": "C14-F1"},
            encoded=["openapi_python_client.parser.properties.enum_property:EnumProperty.build", "openapi_python_client.parser.properties.enum_property:EnumProperty.values_from_list", "openapi_python_client.parser.properties.literal_enum_property:LiteralEnumProperty.build"],
            stubs=["enum values from a pool that contains case/delimiter twins, empty string, leading digits, non-identifier characters"],
            bounds={"values per enum": "<= 2 (quick)", "value pool": 10},
        )
    )
    from ..e1 import spec_obs

    M = "vlib.props.C14"
    ns = [1, 2] if q else [1, 2, 3]
    to = 400 if q else 3000
    obs += spec_obs(M, "enum_member_names", "member_names", {}, "member_names", ns, 99, to)
    obs += spec_obs(M, "enum_values_verbatim", "values_verbatim", {}, "values_verbatim", ns, 99, to)
    obs += spec_obs(M, "enum_raise_probe", "raise_probe", {}, "raise_probe", [2], 99, to)
    obs += spec_obs(M, "enum_merge_probe", "merge_probe", {}, "merge_probe", [2], 99, to)
    obs.append(
        harness_ob(
            "null_member_becomes_nullable", "C17_equiv.py", tier, funcs=["enum_with_null_equals_union"], timeout=200 if q else 600, cpus=1, replay_func="vlib.props.C14:replay",
            encoded=["openapi_python_client.parser.properties.enum_property:EnumProperty.build", "openapi_python_client.parser.properties.literal_enum_property:LiteralEnumProperty.build"],
        )
    )
    return obs
