"""C12: the rendered modules do not depend on set iteration order (hash seed) nor on the declaration order of
components.schemas / paths.  The hash seed and the declaration order are *symbolic permutations*: every `set` the
templates iterate is replaced by a subclass whose iteration order is chosen by a symbolic index, and CrossHair explores
every permutation."""
import copy
from pathlib import Path

from jinja2 import BaseLoader

from openapi_python_client import Project
from openapi_python_client.config import Config, ConfigFile, MetaType
from openapi_python_client.parser import GeneratorData

CFG = Config.from_sources(ConfigFile(post_hooks=[]), MetaType.NONE, Path("doc.json"), "utf-8", True, Path("/nonexistent/out"))


class NoFileLoader(BaseLoader):
    """CrossHair tokenises any file a traceback frame points to as Python; hide the .jinja file names."""

    def __init__(self, inner):
        self.inner = inner

    def get_source(self, environment, template):
        src, _fn, upt = self.inner.get_source(environment, template)
        return src, None, upt

    def list_templates(self):
        return self.inner.list_templates()


def _ref(n):
    return {"$ref": f"#/components/schemas/{n}"}


SCHEMAS = {
    "Alpha": {"type": "object", "properties": {"to-beta": _ref("Beta"), "to-gamma": _ref("Gamma"), "to-delta": _ref("BaseGamma"), "kind": {"type": "string", "enum": ["x", "y"]}}},
    "Beta": {"type": "object", "properties": {"back": _ref("Alpha"), "n": {"type": "integer"}}},
    "Gamma": {"allOf": [_ref("BaseGamma"), {"type": "object", "properties": {"g": {"type": "string"}, "u": {"type": "array", "items": _ref("Alpha")}, "v": _ref("Beta")}}]},
    "BaseGamma": {"type": "object", "properties": {"d": {"type": "string", "format": "date"}}},
    "Registry": {"type": "object", "additionalProperties": {"type": "object", "properties": {"ra": _ref("Alpha"), "rb": _ref("Beta"), "rd": _ref("BaseGamma"), "rg": _ref("Gamma")}}},
}
PATHS = {
    "/one": {"get": {"operationId": "getOne", "responses": {"200": {"description": "ok", "content": {"application/json": {"schema": _ref("Alpha")}}}, "404": {"description": "no", "content": {"application/json": {"schema": _ref("Beta")}}}}}},
    "/two": {"post": {"operationId": "postTwo", "requestBody": {"content": {"application/json": {"schema": _ref("Gamma")}}}, "responses": {"200": {"description": "ok", "content": {"application/json": {"schema": _ref("BaseGamma")}}}}}},
    "/body-multi": {"post": {"operationId": "postMulti", "requestBody": {"content": {"multipart/form-data": {"schema": _ref("BaseGamma")}}}, "responses": {"204": {"description": "none"}}}},
    "/body-json": {"put": {"operationId": "putJson", "requestBody": {"content": {"application/json": {"schema": _ref("BaseGamma")}}}, "responses": {"204": {"description": "none"}}}},
    "/three": {"get": {"operationId": "getThree", "parameters": [{"name": "q", "in": "query", "schema": _ref("BaseGamma")}], "responses": {"204": {"description": "none"}}}},
}


def _doc(schema_order, path_order):
    return {
        "openapi": "3.1.0",
        "info": {"title": "order", "version": "1"},
        "paths": {k: copy.deepcopy(PATHS[k]) for k in path_order},
        "components": {"schemas": {k: copy.deepcopy(SCHEMAS[k]) for k in schema_order}},
    }


def _perm(items, p):
    items = list(items)
    out = []
    for i in range(len(items), 0, -1):
        out.append(items.pop(p % i))
        p //= i
    return out


class PermSet(set):
    """A set whose iteration order is decided by a (symbolic) permutation index instead of by string hashes."""

    def __init__(self, items, perm):
        super().__init__(items)
        self._order = sorted(items)
        self._perm = perm

    def __iter__(self):
        return iter(_perm(self._order, self._perm))


_BOOT = GeneratorData.from_dict({"openapi": "3.1.0", "info": {"title": "order", "version": "1"}, "paths": {}}, config=CFG)
_PROJ = Project(openapi=_BOOT, config=CFG)
_PROJ.env.loader = NoFileLoader(_PROJ.env.loader)
# templates are compiled once, outside symbolic execution; only parsing + rendering run per explored order
MT = _PROJ.env.get_template("model.py.jinja")
ET = _PROJ.env.get_template("endpoint_module.py.jinja", globals={"isbool": lambda obj: obj.get_base_type_string() == "bool"})
for _t in _PROJ.env.list_templates():
    if _t.startswith("property_templates/") or _t in ("helpers.jinja", "endpoint_macros.py.jinja"):
        _PROJ.env.get_template(_t)


def _render(doc, set_perm=None):
    data = GeneratorData.from_dict(doc, config=CFG)
    out = {}
    for m in data.models:
        if set_perm is not None:
            for attr in ("lazy_imports", "relative_imports"):
                v = getattr(m, attr)
                if v is not None:
                    object.__setattr__(m, attr, PermSet(v, set_perm))
            ap = m.additional_properties
            if ap is not None and getattr(ap, "lazy_imports", None) and not isinstance(ap.lazy_imports, PermSet):
                object.__setattr__(ap, "lazy_imports", PermSet(ap.lazy_imports, set_perm))
        out[f"models/{m.class_info.module_name}.py"] = MT.render(model=m)
    for tag, coll in data.endpoint_collections_by_tag.items():
        for ep in coll.endpoints:
            if set_perm is not None:
                ep.relative_imports = PermSet(ep.relative_imports, set_perm)
            out[f"api/{tag}/{ep.name}.py"] = ET.render(endpoint=ep)
    errs = [e.detail for e in data.errors] + [e.detail for c in data.endpoint_collections_by_tag.values() for e in c.parse_errors]
    return out, errs


# the canonical rendering uses the identity permutation for every set, so it does not depend on this process's hash seed
CANON, CANON_ERRS = _render(_doc(sorted(SCHEMAS), sorted(PATHS)), set_perm=0)


def schema_declaration_order(sp: int) -> bool:
    """
    pre: 0 <= sp < 6
    post: _
    """
    out, errs = _render(_doc(_perm(sorted(SCHEMAS), sp * 19 + 7), sorted(PATHS)), set_perm=0)
    return out == CANON and errs == CANON_ERRS == []


def schema_declaration_order_0_thorough(sp: int) -> bool:
    """
    pre: 0 <= sp < 24
    post: _
    """
    out, errs = _render(_doc(_perm(sorted(SCHEMAS), sp), sorted(PATHS)), set_perm=0)
    return out == CANON and errs == CANON_ERRS == []


def schema_declaration_order_1_thorough(sp: int) -> bool:
    """
    pre: 24 <= sp < 48
    post: _
    """
    out, errs = _render(_doc(_perm(sorted(SCHEMAS), sp), sorted(PATHS)), set_perm=0)
    return out == CANON and errs == CANON_ERRS == []


def schema_declaration_order_2_thorough(sp: int) -> bool:
    """
    pre: 48 <= sp < 72
    post: _
    """
    out, errs = _render(_doc(_perm(sorted(SCHEMAS), sp), sorted(PATHS)), set_perm=0)
    return out == CANON and errs == CANON_ERRS == []


def schema_declaration_order_3_thorough(sp: int) -> bool:
    """
    pre: 72 <= sp < 96
    post: _
    """
    out, errs = _render(_doc(_perm(sorted(SCHEMAS), sp), sorted(PATHS)), set_perm=0)
    return out == CANON and errs == CANON_ERRS == []


def schema_declaration_order_4_thorough(sp: int) -> bool:
    """
    pre: 96 <= sp < 120
    post: _
    """
    out, errs = _render(_doc(_perm(sorted(SCHEMAS), sp), sorted(PATHS)), set_perm=0)
    return out == CANON and errs == CANON_ERRS == []


def path_declaration_order(pp: int) -> bool:
    """
    pre: 0 <= pp < 6
    post: _
    """
    out, errs = _render(_doc(sorted(SCHEMAS), _perm(sorted(PATHS), pp * 23 + 9)), set_perm=0)
    return out == CANON and errs == CANON_ERRS == []


def path_declaration_order_0_thorough(pp: int) -> bool:
    """
    pre: 0 <= pp < 24
    post: _
    """
    out, errs = _render(_doc(sorted(SCHEMAS), _perm(sorted(PATHS), pp)), set_perm=0)
    return out == CANON and errs == CANON_ERRS == []


def path_declaration_order_1_thorough(pp: int) -> bool:
    """
    pre: 24 <= pp < 48
    post: _
    """
    out, errs = _render(_doc(sorted(SCHEMAS), _perm(sorted(PATHS), pp)), set_perm=0)
    return out == CANON and errs == CANON_ERRS == []


def path_declaration_order_2_thorough(pp: int) -> bool:
    """
    pre: 48 <= pp < 72
    post: _
    """
    out, errs = _render(_doc(sorted(SCHEMAS), _perm(sorted(PATHS), pp)), set_perm=0)
    return out == CANON and errs == CANON_ERRS == []


def path_declaration_order_3_thorough(pp: int) -> bool:
    """
    pre: 72 <= pp < 96
    post: _
    """
    out, errs = _render(_doc(sorted(SCHEMAS), _perm(sorted(PATHS), pp)), set_perm=0)
    return out == CANON and errs == CANON_ERRS == []


def path_declaration_order_4_thorough(pp: int) -> bool:
    """
    pre: 96 <= pp < 120
    post: _
    """
    out, errs = _render(_doc(sorted(SCHEMAS), _perm(sorted(PATHS), pp)), set_perm=0)
    return out == CANON and errs == CANON_ERRS == []


def set_iteration_order(p: int) -> bool:
    """
    pre: 0 <= p < 4
    post: _
    """
    out, errs = _render(_doc(sorted(SCHEMAS), sorted(PATHS)), set_perm=p * 5 + 1)
    return out == CANON


def set_iteration_order_thorough(p: int) -> bool:
    """
    pre: 0 <= p < 24
    post: _
    """
    out, errs = _render(_doc(sorted(SCHEMAS), sorted(PATHS)), set_perm=p)
    return out == CANON
