"""Translator validation and shadow-input generation for the bounded-string engine."""
from __future__ import annotations

import itertools
import random
import time
from typing import Callable

import z3

from . import core
from .alphabet import IDX, SIGMA
from .core import BStr, bv, lv

SHAPE_ALPHABET = ["a", "b", "A", "B", "1", "_", "-", " ", ".", "İ", "ß", "ΐ", "ǅ", '"', "\\", "²", "'", "\n", "ŉ"]
SHAPE_ALPHABET = [c for c in SHAPE_ALPHABET if c in IDX]


def shadow_inputs(K: int, n_inputs: int = 1, seed: int = 0, budget: int = 6000) -> list[tuple]:
    """Inputs for the concrete shadow runs that guess capacities: exhaustive short strings over a shape alphabet that
    contains every length-changing character class, plus random longer ones."""
    rnd = random.Random(seed + 17)
    singles: list[str] = []
    small = min(K, 3 if n_inputs == 1 else 2)
    for n in range(small + 1):
        for tup in itertools.product(SHAPE_ALPHABET, repeat=n):
            singles.append("".join(tup))
    if len(singles) > budget:
        singles = rnd.sample(singles, budget)
    for _ in range(budget // 2):
        n = rnd.randint(0, K)
        singles.append("".join(rnd.choice(SHAPE_ALPHABET) for _ in range(n)))
    # worst-case shapes: alternating case, all-expanding
    for c in SHAPE_ALPHABET:
        singles.append(c * K)
        for d in SHAPE_ALPHABET:
            singles.append(((c + d) * K)[:K])
    # every character of Sigma in leading / inner / trailing position next to letters, digits and delimiters
    for c in SIGMA:
        for pat in (c * K, ("a" + c) * K, (c + "a") * K, ("A" + c) * K, (c + "_") * K, ("1" + c) * K, (c + "A" + c + "a") * K):
            singles.append(pat[:K])
            if K > 1:
                singles.append(pat[: K - 1])
    if n_inputs == 1:
        return [(s,) for s in singles]
    out = []
    for _ in range(budget):
        out.append(tuple(rnd.choice(singles) for _ in range(n_inputs)))
    return out


def test_vectors(K: int, seed: int, n_random: int = 400, extra: list[str] | None = None) -> list[str]:
    rnd = random.Random(seed)
    tests = [
        "", "a", "aB", "ABc", "a-b", "a_b", "A B", "HTTPRe", "camelC", "_x", "if", "id", "self", "None", "²a", "a.b c",
        "UPPER", "İx", "sn_ca", "ǅa", 'a"b', "int", "1a", "__", "a²", "a\\", '\\"', "a\nb", "ßß", "ΐa", "class", "True",
        "a b", "a-b", "A_b", "ab c", "S3C", "s3c", "x'y", "type", "ŉ", "a1B", "AB", "Ab",
    ]
    tests += extra or []
    pool = SIGMA[32:127] * 2 + SIGMA[128:] + SHAPE_ALPHABET * 4
    for _ in range(n_random):
        tests.append("".join(rnd.choice(pool) for _ in range(rnd.randint(0, K))))
    seen, out = set(), []
    for t in tests:
        if len(t) <= K and all(c in IDX for c in t) and t not in seen:
            seen.add(t)
            out.append(t)
    return out


class Evaluator:
    """Evaluate symbolic terms on concrete inputs with an incremental solver (inputs fully fixed -> propagation only)."""

    def __init__(self, inputs: list[BStr]) -> None:
        self.inputs = inputs
        self.s = z3.Solver()

    def run(self, texts: list[str], terms: list):
        self.s.push()
        for v, t in zip(self.inputs, texts):
            if z3.is_bv_value(v.n):
                assert v.n.as_long() == len(t)
            else:
                self.s.add(v.n == lv(len(t)))
            for i in range(v.cap):
                self.s.add(v.ch[i] == bv(IDX[t[i]] if i < len(t) else 0))
        r = self.s.check()
        assert str(r) == "sat", r
        m = self.s.model()
        out = []
        for term in terms:
            if isinstance(term, BStr):
                out.append(core.decode(m, term))
            elif isinstance(term, (str, bool, int)) or term is None:
                out.append(term)
            elif z3.is_bool(term):
                out.append(z3.is_true(m.eval(term, model_completion=True)))
            elif z3.is_bv(term):
                out.append(m.eval(term, model_completion=True).as_long())
            else:
                raise TypeError(type(term))
        self.s.pop()
        return out


def validate(inputs: list[BStr], terms: list, real: Callable, tests: list[tuple], side=None, limit_report: int = 5) -> dict:
    """Compare the encoding with the real function on concrete inputs.  `real(*texts)` returns a list comparable with
    the evaluated `terms`."""
    ev = Evaluator(inputs)
    bad, t0 = [], time.time()
    all_terms = list(terms) + ([side] if side is not None else [])
    for tup in tests:
        got = ev.run(list(tup), all_terms)
        if side is not None and got[-1]:
            bad.append({"input": tup, "problem": "capacity side condition violated"})
            continue
        want = real(*tup)
        if list(got[: len(terms)]) != list(want):
            bad.append({"input": tup, "model": got[: len(terms)], "real": want})
    return {"n": len(tests), "mismatches": len(bad), "examples": bad[:limit_report], "s": round(time.time() - t0, 2)}
