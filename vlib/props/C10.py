"""C10 — absent, null and present stay three distinct states."""
from __future__ import annotations

from ..common import Ob
from ..e3 import skeleton_obs

META = {
    "level": "model_checking",
    "assumptions": ["document shape is bounded by the skeleton family; instances and arguments are symbolic inside each skeleton"],
}


def obligations(tier: str) -> list[Ob]:
    obs = skeleton_obs("C10", "model", ["tri_", "reqd_"], tier, label="tristate")
    obs += skeleton_obs("C10", "model", ["tri_", "reqd_"], tier, names=["enums"], config={"literal_enums": True}, label="tristate-literal-enums")
    obs += skeleton_obs("C10", "endpoint", ["req_"], tier, names=["params"], label="unset-not-sent")
    from ..e2 import harness_ob

    q = tier == "quick"
    obs.append(
        harness_ob(
            "shared_enum_keeps_own_requiredness", "C06_enums.py", tier, funcs=["enum_name_taken"], timeout=200 if q else 600, cpus=1, replay_func="vlib.props.C10:replay",
            encoded=["openapi_python_client.parser.properties.enum_property:EnumProperty.build", "openapi_python_client.parser.properties.literal_enum_property:LiteralEnumProperty.build"],
            bounds={"second use of one enum class": "required x required x default, both enum styles"},
        )
    )
    return obs


def replay(w: dict) -> dict:
    if w.get("skeleton"):
        from ..e3 import replay as r3

        return r3(w)
    from ..e2 import replay as r2

    return r2(w)
