"""C06: exit-status relation of the real cli.handle_errors, for every list of diagnostics (bounded length)."""
from unittest import mock

import typer

from openapi_python_client import cli
from openapi_python_client.parser.errors import ErrorLevel, GeneratorError, ParseError


def _mk(level_is_error: bool, parse: bool):
    lvl = ErrorLevel.ERROR if level_is_error else ErrorLevel.WARNING
    if parse:
        return ParseError(detail="d", level=lvl)
    return GeneratorError(detail="d", level=lvl)


def _exit_code(errors, fail_on_warning):
    with mock.patch.object(typer, "secho", lambda *a, **k: None), mock.patch.object(typer, "echo", lambda *a, **k: None), mock.patch.object(typer, "style", lambda *a, **k: ""):
        try:
            cli.handle_errors(errors, fail_on_warning)
        except typer.Exit as e:
            return e.exit_code
    return 0


def exit_relation_3(n: int, e0: bool, e1: bool, e2: bool, p0: bool, p1: bool, p2: bool, fail_on_warning: bool) -> bool:
    """
    pre: 0 <= n <= 3
    post: _
    """
    errors = [_mk(e, p) for e, p in [(e0, p0), (e1, p1), (e2, p2)][:n]]
    code = _exit_code(errors, fail_on_warning)
    has_error = any(e for e in [e0, e1, e2][:n])
    expected = 1 if (has_error or (fail_on_warning and n > 0)) else 0
    return code == expected


def exit_relation_5(n: int, e0: bool, e1: bool, e2: bool, e3: bool, e4: bool, fail_on_warning: bool) -> bool:
    """
    pre: 0 <= n <= 5
    post: _
    """
    errors = [_mk(e, False) for e in [e0, e1, e2, e3, e4][:n]]
    code = _exit_code(errors, fail_on_warning)
    has_error = any(e for e in [e0, e1, e2, e3, e4][:n])
    expected = 1 if (has_error or (fail_on_warning and n > 0)) else 0
    return code == expected
