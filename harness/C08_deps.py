"""C08 / C01: a model that uses a failing schema — at *any* position — is removed together with it, so that nothing
that remains refers to something that was removed (real build_schemas; position, declaration order and the kind of
failure are symbolic)."""
from pathlib import Path

from openapi_python_client import schema as oai
from openapi_python_client.config import Config, ConfigFile, MetaType
from openapi_python_client.parser.properties import ModelProperty, Schemas, build_schemas

CFG = Config.from_sources(ConfigFile(post_hooks=[]), MetaType.NONE, Path("doc.json"), "utf-8", True, None)
R = {"$ref": "#/components/schemas/Bad"}
USERS = (
    {"type": "object", "properties": {"p": R}},
    {"type": "object", "properties": {"p": {"type": "array", "items": R}}},
    {"type": "object", "properties": {"p": {"oneOf": [R, {"type": "integer"}]}}},
    {"type": "object", "properties": {"p": {"type": "array", "items": {"oneOf": [R, {"type": "string"}]}}}},
    {"type": "object", "properties": {"p": {"type": "object", "properties": {"inner": R}}}},
    {"type": "object", "properties": {"p": {"allOf": [R]}}},
    {"type": "object", "properties": {"p": {"oneOf": [R, {"type": "null"}]}}},
    {"type": "object", "additionalProperties": R},
    {"allOf": [R, {"type": "object", "properties": {"own": {"type": "integer"}}}]},
    {"type": "object", "properties": {"p": {"anyOf": [{"type": "string"}, {"type": "array", "items": R}]}}},
)
BADS = (
    {"type": "object", "properties": {"x": {"$ref": "#/components/schemas/Missing"}}},
    {"type": "object", "properties": {"x": {"type": "array"}}},
    {"type": "object", "properties": {"x": {"type": "integer", "default": "zz"}}},
)
FINE = {"type": "object", "properties": {"f": {"type": "integer"}}}
USER_SCHEMAS = tuple(oai.Schema.model_validate(u) for u in USERS)
BAD_SCHEMAS = tuple(oai.Schema.model_validate(b) for b in BADS)
UNION_POSITIONS = (2, 3, 6, 9)


def _pick(pool, i):
    for k in range(len(pool)):
        if i == k:
            return pool[k]
    return pool[0]


def _perm(items, p):
    items = list(items)
    out = []
    for i in range(len(items), 0, -1):
        out.append(items.pop(p % i))
        p //= i
    return out


def _ok(position, bad, order) -> bool:
    comps = {"Bad": _pick(BAD_SCHEMAS, bad).model_copy(deep=True), "User": _pick(USER_SCHEMAS, position).model_copy(deep=True), "Fine": oai.Schema.model_validate(FINE)}
    names = _perm(sorted(comps), order)
    schemas = build_schemas(components={n: comps[n] for n in names}, schemas=Schemas(), config=CFG)
    refs = schemas.classes_by_reference
    if "/components/schemas/Bad" in refs or "/components/schemas/Fine" not in refs:
        return False
    if "/components/schemas/User" in refs:
        return False  # User still refers to the removed Bad
    for name, prop in schemas.classes_by_name.items():
        if isinstance(prop, ModelProperty) and str(name).startswith(("User", "Bad")):
            return False  # neither the classes themselves nor their inline children survive
    return True


def dependants_are_removed(position: int, bad: int, order: int) -> bool:
    """
    pre: 0 <= position < 10 and 0 <= bad < 3 and 0 <= order < 6
    post: _
    """
    return _ok(position, bad, order)


def dependants_are_removed__excl(position: int, bad: int, order: int) -> bool:
    """
    pre: 0 <= position < 10 and 0 <= bad < 3 and 0 <= order < 6
    post: _
    """
    if position in UNION_POSITIONS:
        return True  # known finding C08-F1: references inside unions do not record the dependency
    return _ok(position, bad, order)


# ------------------------------------------------------------------------------------------------ survivors are self-contained
_INLINE = (
    {"type": "object", "properties": {"inner": {"type": "object", "properties": {"y": {"type": "string"}}}}},  # class AInner
    {"type": "object", "properties": {"inner": {"type": "array", "items": {"type": "object", "properties": {"y": {"type": "string"}}}}}},  # class AInnerItem
    {"type": "object", "additionalProperties": {"type": "object", "properties": {"y": {"type": "string"}}}},  # class AAdditionalProperty
)
_TAKEN = ("AInner", "AInnerItem", "AAdditionalProperty")
_REFERRERS = (
    lambda r: {"type": "object", "properties": {"i": r}},
    lambda r: {"type": "object", "properties": {"i": {"type": "array", "items": r}}},
    lambda r: {"allOf": [r, {"type": "object", "properties": {"own": {"type": "integer"}}}]},
)


def rejected_duplicate_spares_the_existing_class(shape: int, referrer: int, order: int) -> bool:
    """
    Model `A` has an inline model whose class name is already taken by a component (`AInner`, …): `A` is rejected as a
    duplicate — and only `A`.  The component of that name and the model `User` that refers to it stay, and every class
    that remains registered by reference is still registered by name (so its module is generated).
    pre: 0 <= shape < 3 and 0 <= referrer < 3 and 0 <= order < 6
    post: _
    """
    taken = _pick(_TAKEN, shape)
    r = {"$ref": f"#/components/schemas/{taken}"}
    comps = {"A": _pick(_INLINE, shape), taken: {"type": "object", "properties": {"x": {"type": "integer"}}}, "User": _pick(_REFERRERS, referrer)(r)}
    names = _perm(sorted(comps), order)
    schemas = build_schemas(components={n: oai.Schema.model_validate(comps[n]) for n in names}, schemas=Schemas(), config=CFG)
    refs = schemas.classes_by_reference
    if "/components/schemas/A" in refs or len(schemas.errors) != 1:
        return False
    if f"/components/schemas/{taken}" not in refs or "/components/schemas/User" not in refs:
        return False
    by_name = {str(k) for k in schemas.classes_by_name}
    return all(str(p.class_info.name) in by_name for p in refs.values() if isinstance(p, ModelProperty))
