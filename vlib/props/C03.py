"""C03 — requests put every argument where the document says it goes."""
from __future__ import annotations

from ..common import Ob
from ..e3 import replay, skeleton_obs  # noqa: F401

META = {
    "level": "model_checking",
    "assumptions": ["the claim ends at the httpx API boundary (kwargs of client.get_httpx_client().request); httpx's own wire encoding is not encoded"],
}


def obligations(tier: str) -> list[Ob]:
    obs = skeleton_obs("C03", "endpoint", ["req_"], tier, label="request")
    for o in obs:
        if o.name == "request:multipart":
            o.params["finding_by_func"] = {"req_post_parts_files": "C03-F1", "req_header_union": "C03-F2", "req_content_param": "C03-F3"}
    return obs
