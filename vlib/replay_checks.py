"""Replay oracles: concrete differential runs of the *real* generator (whole pipeline, real files, real imports).

These are not the deciding step of any property — they are (a) the gate that the skeleton clients are valid packages,
(b) the replay targets for solver witnesses and (c) finite differential comparisons (path-exhaustive over a stated finite
choice set, not value-symbolic).  Evidence labels them engine="replay"."""
from __future__ import annotations

import copy
import json
import os
import random
import subprocess
import sys
import time
from pathlib import Path
from typing import Any

from . import gen
from .common import REPO, VERIF, result, seed

PY = str(VERIF / ".venv" / "bin" / "python")

_IMPORT_ALL = r"""
import importlib, pkgutil, sys, json
sys.path.insert(0, sys.argv[1])
# only the declared runtime dependencies may be needed
pkg = importlib.import_module(sys.argv[2])
bad = []
for m in pkgutil.walk_packages(pkg.__path__, pkg.__name__ + "."):
    try:
        importlib.import_module(m.name)
    except Exception as e:
        bad.append((m.name, type(e).__name__ + ": " + str(e)[:200]))
print("@@" + json.dumps(bad))
"""


def undefined_names(path: Path) -> list[str]:
    """Names a generated module reads as globals (at module level or inside any function / class body) that it neither
    binds at module level (imports - also those under TYPE_CHECKING -, defs, classes, assignments) nor finds among the
    builtins: a NameError waiting for the branch that reads it.  CPython's own symbol table does the scoping."""
    import builtins
    import symtable

    src = path.read_text(encoding="utf-8")
    top = symtable.symtable(src, str(path), "exec")
    bound = {sym.get_name() for sym in top.get_symbols() if sym.is_assigned() or sym.is_imported() or sym.is_namespace() or sym.is_parameter()}
    ok = bound | set(dir(builtins)) | {"__file__", "__name__", "__doc__", "__package__", "__spec__", "__path__", "__all__", "__annotations__", "__builtins__", "__class__"}
    missing: set[str] = set()

    def visit(t) -> None:
        for sym in t.get_symbols():
            n = sym.get_name()
            if not sym.is_referenced():
                continue
            if t.get_type() == "module":
                if not (sym.is_assigned() or sym.is_imported() or sym.is_namespace()) and n not in ok:
                    missing.add(n)
            elif sym.is_global() and n not in ok:
                missing.add(n)
        for c in t.get_children():
            visit(c)

    visit(top)
    return sorted(missing)


def compile_and_import(pkg_dir: Path, root: Path, package: str) -> list[str]:
    problems = []
    import warnings

    for p in sorted(pkg_dir.rglob("*.py")):
        try:
            with warnings.catch_warnings():
                warnings.simplefilter("error", SyntaxWarning)  # e.g. "invalid decimal literal" for `7and`
                compile(p.read_text(encoding="utf-8"), str(p), "exec")
        except SyntaxError as e:
            problems.append(f"{p.relative_to(root)}: SyntaxError {e.msg} line {e.lineno}")
    if problems:
        return problems
    problems += dangling_imports(pkg_dir)
    for p in sorted(pkg_dir.rglob("*.py")):
        miss = undefined_names(p)
        if miss:
            problems.append(f"{p.relative_to(root)}: names read but never bound (NameError at run time): {miss}")
    if problems:
        return problems
    env = dict(os.environ, PYTHONDONTWRITEBYTECODE="1")
    pr = subprocess.run([PY, "-c", _IMPORT_ALL, str(pkg_dir.parent), package], capture_output=True, text=True, env=env, timeout=300)
    for ln in pr.stdout.splitlines():
        if ln.startswith("@@"):
            for name, err in json.loads(ln[2:]):
                problems.append(f"import {name}: {err}")
            return problems
    return [f"import run failed: {(pr.stderr or pr.stdout)[-400:]}"]


def all_skeleton_docs() -> dict[str, dict]:
    from . import skeletons as sk

    out = {f"model:{k}": v for k, v in sk.model_skeletons().items()}
    out.update({f"endpoint:{k}": v for k, v in sk.endpoint_skeletons().items()})
    return out


def importable(tier: str = "quick", known: list | None = None, **_: Any) -> dict:
    """C01 gate: every skeleton client compiles, imports with only the declared dependencies, pyproject is valid TOML —
    for every metadata flavour and the literal_enums / docstrings_on_attributes switches."""
    import tomllib

    t0, n, wit = time.time(), 0, []
    docs = all_skeleton_docs()
    combos = [("none", {}), ("poetry", {}), ("pdm", {"literal_enums": True}), ("setup", {"docstrings_on_attributes": True}), ("none", {"literal_enums": True, "docstrings_on_attributes": True})]
    if tier == "quick":
        per_doc = lambda i: [combos[0], combos[1 + i % 4], combos[4]] if i % 3 == 0 else [combos[0], combos[1 + i % 4]]  # noqa: E731
        has_enum = lambda d: '"enum"' in json.dumps(d)  # noqa: E731
    else:
        per_doc = lambda i: combos  # noqa: E731
    root = gen.scratch("verif-imp-")
    try:
        for i, (name, d) in enumerate(sorted(docs.items())):
            todo = list(per_doc(i))
            if tier == "quick" and has_enum(d) and not any(cf.get("literal_enums") for _, cf in todo):
                todo.append(combos[4])  # documents with enums are always also generated in the literal style
            for meta, cf in todo:
                pkg = "sk_" + name.split(":")[1] + "_" + meta + ("_le" if cf.get("literal_enums") else "") + ("_da" if cf.get("docstrings_on_attributes") else "")
                errs, pdir = gen.generate(d, root, pkg, meta=meta, **cf)
                n += 1
                probs = []
                if any(getattr(e.level, "value", "") == "ERROR" for e in errs):
                    probs.append(f"generator rejects the skeleton: {[e.detail for e in errs][:2]}")
                else:
                    import_name = pkg if meta == "none" else pkg + "_pkg"
                    probs += compile_and_import(pdir, root, import_name)
                    if meta != "none":
                        try:
                            tomllib.loads((root / pkg / "pyproject.toml").read_text())
                        except Exception as e:
                            probs.append(f"pyproject.toml: {e}")
                        if meta == "setup":
                            try:
                                compile((root / pkg / "setup.py").read_text(), "setup.py", "exec")
                            except SyntaxError as e:
                                probs.append(f"setup.py: {e}")
                if probs:
                    wit.append({"what": f"generated package for skeleton {name} (meta={meta}, {cf}) is not a valid importable package", "input": {"skeleton": name, "meta": meta, "config": cf}, "observed": probs[:5], "reproduced": True, "replay_func": "vlib.replay_checks:replay_importable"})
                gen.cleanup(root / pkg)
    finally:
        gen.cleanup(root)
    return result("violated" if wit else "holds", f"{n} generated packages compiled and imported", queries=n, witnesses=wit[:5], solver_s=0.0, bounds={"documents": "skeleton family", "configurations": "4 metadata flavours x literal_enums x docstrings_on_attributes (rotated in quick tier)"}, samples=[{"packages": n, "wall_s": round(time.time() - t0, 1)}], cases=[f"importable:{k}" for k in docs], stubs=["replay oracle: concrete runs, not a solver verdict"])


def replay_importable(w: dict) -> dict:
    import tomllib  # noqa: F401

    i = w["input"]
    d = all_skeleton_docs()[i["skeleton"]]
    root = gen.scratch("verif-imp-")
    try:
        errs, pdir = gen.generate(d, root, "sk_replay", meta=i["meta"], **i["config"])
        probs = compile_and_import(pdir, root, "sk_replay" if i["meta"] == "none" else "sk_replay_pkg")
        return {"reproduced": bool(probs), "observed": probs[:5]}
    finally:
        gen.cleanup(root)


_GEN_TREE = r"""
import sys, json, hashlib
sys.path.insert(0, sys.argv[1])
from pathlib import Path
from vlib import gen
doc = json.loads(Path(sys.argv[2]).read_text())
root = Path(sys.argv[3])
errs, pdir = gen.generate(doc, root, "sk_det", **json.loads(sys.argv[4]))
files = gen.tree_files(pdir)
print("@@" + json.dumps({"files": {k: hashlib.sha1(v).hexdigest() for k, v in files.items()}, "errors": [str(e.detail) for e in errs]}))
"""


def _gen_subprocess(doc: dict, hashseed: int, cf: dict) -> dict:
    root = gen.scratch("verif-det-")
    try:
        dp = root / "doc.json"
        dp.write_text(json.dumps(doc))
        env = dict(os.environ, PYTHONHASHSEED=str(hashseed), PYTHONDONTWRITEBYTECODE="1")
        pr = subprocess.run([PY, "-c", _GEN_TREE, str(VERIF), str(dp), str(root / "out"), json.dumps(cf)], capture_output=True, text=True, env=env, timeout=300)
        for ln in pr.stdout.splitlines():
            if ln.startswith("@@"):
                return json.loads(ln[2:])
        raise RuntimeError((pr.stderr or pr.stdout)[-600:])
    finally:
        gen.cleanup(root)


def _shuffled(doc: dict, rnd: random.Random) -> dict:
    d = copy.deepcopy(doc)
    for holder, key in ((d, "paths"), (d.get("components", {}), "schemas")):
        if key in holder and isinstance(holder[key], dict):
            items = list(holder[key].items())
            rnd.shuffle(items)
            holder[key] = dict(items)
    return d


def determinism(tier: str = "quick", known: list | None = None, **_: Any) -> dict:
    """C12 replay: real subprocess generations under different PYTHONHASHSEED and with shuffled components/paths."""
    rnd = random.Random(seed())
    docs = all_skeleton_docs()
    names = sorted(docs)
    if tier == "quick":
        names = [n for n in names if n.split(":")[1] in ("nested", "unions", "allof", "params", "responses", "enums")]
    wit, n = [], 0
    seeds = [1, 4242] if tier == "quick" else [1, 2, 3, 4242, 99999]
    for name in names:
        base = _gen_subprocess(docs[name], 0, {})
        for hs in seeds:
            variants = [("hash seed", docs[name]), ("hash seed + shuffled declaration order", _shuffled(docs[name], rnd))]
            for label, d in variants:
                other = _gen_subprocess(d, hs, {})
                n += 1
                if label != "hash seed":
                    # diagnostics are reported in document order: a reordered document may list the same diagnostics in
                    # another order (the property speaks about classes, modules, functions and their contents)
                    other = dict(other, errors=sorted(other["errors"]))
                    ref = dict(base, errors=sorted(base["errors"]))
                else:
                    ref = base
                if other != ref:
                    diff = sorted(k for k in set(base["files"]) | set(other["files"]) if base["files"].get(k) != other["files"].get(k))
                    wit.append({"what": f"skeleton {name}: output differs under {label} (PYTHONHASHSEED={hs})", "input": {"skeleton": name, "hashseed": hs, "doc": d}, "observed": {"differing_files": diff[:8], "errors": other["errors"][:3]}, "reproduced": True, "replay_func": "vlib.replay_checks:replay_determinism"})
                    break
    return result("violated" if wit else "holds", f"{n} regenerated trees byte-identical to the reference", queries=n, witnesses=wit[:4], bounds={"hash seeds": seeds, "documents": names}, cases=[f"determinism:{k}" for k in names], stubs=["replay oracle: concrete runs, not a solver verdict"])


def replay_determinism(w: dict) -> dict:
    i = w["input"]
    base = _gen_subprocess(all_skeleton_docs()[i["skeleton"]], 0, {})
    other = _gen_subprocess(i["doc"], i["hashseed"], {})
    base, other = dict(base, errors=sorted(base["errors"])), dict(other, errors=sorted(other["errors"]))
    return {"reproduced": base != other, "observed": sorted(k for k in set(base["files"]) | set(other["files"]) if base["files"].get(k) != other["files"].get(k))[:8]}


# ------------------------------------------------------------------------------------------------ C07 census
def _document_items(doc: dict) -> tuple[list, list]:
    ops = []
    for path, item in (doc.get("paths") or {}).items():
        for method, op in item.items():
            if method in ("get", "put", "post", "delete", "options", "head", "patch", "trace"):
                ops.append((path, method, op))
    schemas = []
    for name, s in ((doc.get("components") or {}).get("schemas") or {}).items():
        if isinstance(s, dict) and (s.get("type") == "object" or "properties" in s or "allOf" in s or "enum" in s):
            schemas.append(name)
    return ops, schemas


def census_one(doc: dict, cf: dict | None = None) -> list[str]:
    """Every operation and every object/enum component is generated (a function / class exists) or named in a
    diagnostic; two distinct items never share one generated artefact without a diagnostic."""
    import ast

    root = gen.scratch("verif-census-")
    problems = []
    try:
        errs, pdir = gen.generate(doc, root, "sk_census", **(cf or {}))
        text = "\n".join(f"{e.header} {e.detail}" for e in errs)
        if not pdir.exists():
            return [] if errs else ["nothing generated and no diagnostic"]
        ops, schemas = _document_items(doc)
        api_files = {str(p.relative_to(pdir / "api")): p for p in (pdir / "api").rglob("*.py") if p.name != "__init__.py"} if (pdir / "api").exists() else {}
        generated_ops = []
        for rel, p in api_files.items():
            src = p.read_text()
            generated_ops.append((rel, src))
        for path, method, op in ops:
            hit = [rel for rel, src in generated_ops if f'"method": "{method}"' in src and _url_matches(src, path)]
            diagnosed = f"{method.upper()} {path}" in text
            if not hit and not diagnosed:
                problems.append(f"operation {method.upper()} {path} is neither generated nor diagnosed")
        class_names = {}
        for p in (pdir / "models").glob("*.py"):
            if p.name == "__init__.py":
                continue
            tree = ast.parse(p.read_text())
            for node in tree.body:
                if isinstance(node, ast.ClassDef):
                    class_names.setdefault(node.name, []).append(p.name)
                if isinstance(node, ast.Assign) and isinstance(node.targets[0], ast.Name) and node.targets[0].id[:1].isupper() and not node.targets[0].id.isupper():
                    class_names.setdefault(node.targets[0].id, []).append(p.name)
        from openapi_python_client import utils

        for name in schemas:
            cn = str(utils.ClassName(name, "field_"))
            title = ((doc["components"]["schemas"][name]) or {}).get("title")
            cands = {cn} | ({str(utils.ClassName(title, "field_"))} if title else set())
            if not (cands & set(class_names)) and name not in text:
                problems.append(f"component schema {name} has no generated class (expected one of {sorted(cands)}) and no diagnostic names it")
        n_models = len([p for p in (pdir / "models").glob("*.py") if p.name != "__init__.py"])
        init = (pdir / "models" / "__init__.py").read_text()
        listed = init.count(" import ")
        if listed != n_models and listed > n_models:
            problems.append(f"models/__init__.py imports {listed} classes but only {n_models} module files exist: two classes share one module file (one was overwritten) without a diagnostic")
        return problems
    finally:
        gen.cleanup(root)


def _url_matches(src: str, path: str) -> bool:
    import re

    m = re.search(r'"url": "([^"]*)"', src)
    if not m:
        return False
    norm = lambda s: re.sub(r"\{[^}]*\}", "{}", s)  # noqa: E731
    return norm(m.group(1)) == norm(path)


def census(tier: str = "quick", known: list | None = None, **_: Any) -> dict:
    docs = all_skeleton_docs()
    wit, n = [], 0
    for name, d in sorted(docs.items()):
        n += 1
        probs = census_one(d)
        if probs:
            wit.append({"what": f"census of skeleton {name}: items dropped silently", "input": {"skeleton": name}, "observed": probs[:5], "reproduced": True, "replay_func": "vlib.replay_checks:replay_census"})
    return result("violated" if wit else "holds", f"census holds on {n} documents", queries=n, witnesses=wit[:4], cases=[f"census:{k}" for k in docs], bounds={"documents": "skeleton family"}, stubs=["replay oracle: concrete runs, not a solver verdict"])


def replay_census(w: dict) -> dict:
    i = w["input"]
    d = i.get("doc") or all_skeleton_docs()[i["skeleton"]]
    probs = census_one(d)
    return {"reproduced": bool(probs), "observed": probs[:5]}


# ------------------------------------------------------------------------------------------------ C08 bad pieces
BAD_SCHEMAS = {
    "array_without_items": {"type": "array"},
    "dangling_ref_prop": {"type": "object", "properties": {"x": {"$ref": "#/components/schemas/DoesNotExist"}}},
    "remote_ref_prop": {"type": "object", "properties": {"x": {"$ref": "https://example.com/s.json#/X"}}},
    "invalid_default": {"type": "object", "properties": {"x": {"type": "integer", "default": "not-a-number"}}},
    "mixed_enum": {"enum": ["a", 1]},
    "allof_non_object": {"allOf": [{"$ref": "#/components/schemas/ZzBadLeafEnum"}, {"type": "object", "properties": {"k": {"type": "string"}}}]},
    "bad_additional_properties": {"type": "object", "additionalProperties": {"type": "array"}},
    "bad_nested_list_item": {"type": "object", "properties": {"l": {"type": "array", "items": {"type": "array"}}}},
    "enum_default_not_member": {"type": "object", "properties": {"e": {"type": "string", "enum": ["a"], "default": "b"}}},
    "conflicting_allof_members": {"allOf": [{"type": "object", "properties": {"p": {"type": "string"}}}, {"type": "object", "properties": {"p": {"type": "integer"}}}]},
    "bad_union_member": {"type": "object", "properties": {"u": {"oneOf": [{"type": "array"}, {"type": "string"}]}}},
}
BAD_OPERATIONS = {
    "optional_path_param": {"operationId": "zzBadOptionalPath", "parameters": [{"name": "id", "in": "path", "required": False, "schema": {"type": "string"}}], "responses": {"204": {"description": "n"}}},
    "duplicate_params": {"operationId": "zzBadDup", "parameters": [{"name": "q", "in": "query", "schema": {"type": "string"}}, {"name": "q", "in": "query", "schema": {"type": "integer"}}], "responses": {"204": {"description": "n"}}},
    "unparseable_body": {"operationId": "zzBadBody", "requestBody": {"content": {"application/json": {"schema": {"type": "array"}}}}, "responses": {"204": {"description": "n"}}},
    "dangling_param_ref": {"operationId": "zzBadParamRef", "parameters": [{"$ref": "#/components/parameters/Nope"}], "responses": {"204": {"description": "n"}}},
}


def _shared_target(doc: dict) -> str | None:
    """An object component that some other component references (so a bad model can 'share' it with healthy ones)."""
    comps = (doc.get("components") or {}).get("schemas") or {}
    text = {n: json.dumps(s) for n, s in comps.items()}
    for n, s in comps.items():
        if isinstance(s, dict) and s.get("type") == "object" and "allOf" not in s:
            if any(f'"#/components/schemas/{n}"' in t for m, t in text.items() if m != n):
                return n
    return None


_OV_GOOD = {"name": "zzov", "in": "query", "schema": {"type": "string"}}
_OV_BAD = {"name": "zzov", "in": "query", "schema": {"type": "array"}}
_METHODS = ("get", "put", "post", "delete", "options", "head", "patch", "trace")
EXTRA_KINDS = ["shares_ref_then_bad", "bad_sibling_method", "bad_overridden_pathitem_param", "bad_inline_name_collision"]


def _clean_for(doc: dict, kind: str, position: int) -> dict:
    """The healthy document a bad piece is compared against (the document itself unless the bad piece needs healthy
    company that has to be present on both sides)."""
    if kind == "bad_overridden_pathitem_param":
        d = copy.deepcopy(doc)
        paths = list(d.get("paths", {}).items())
        if paths:
            pth, item = paths[position % len(paths)]
            for m in _METHODS:
                if isinstance(item.get(m), dict):
                    item[m].setdefault("parameters", []).append(copy.deepcopy(_OV_GOOD))  # every operation overrides it
        return d
    if kind == "bad_inline_name_collision":
        d = copy.deepcopy(doc)
        comps = d.setdefault("components", {}).setdefault("schemas", {})
        comps["ZzBadPieceInner"] = {"type": "object", "properties": {"x": {"type": "integer"}}}
        comps["ZzUsesInner"] = {"type": "object", "properties": {"i": {"$ref": "#/components/schemas/ZzBadPieceInner"}}}
        return d
    return doc


def _with_bad(doc: dict, kind: str, position: int, dependant: bool) -> dict:
    d = copy.deepcopy(_clean_for(doc, kind, position))
    comps = d.setdefault("components", {}).setdefault("schemas", {})
    if kind == "bad_overridden_pathitem_param":
        # an unparseable parameter at path-item level which every operation of the path validly re-declares: by the
        # override rule no operation depends on it
        paths = list(d.get("paths", {}).items())
        if paths:
            pth, item = paths[position % len(paths)]
            item.setdefault("parameters", []).append(copy.deepcopy(_OV_BAD))
        return d
    if kind == "bad_inline_name_collision":
        # the inline model of `inner` would be called ZzBadPieceInner, a name a healthy component already has
        items = list(comps.items())
        new = [("ZzBadPiece", {"type": "object", "properties": {"inner": {"type": "object", "properties": {"y": {"type": "string"}}}}})]
        pos = position % (len(items) + 1)
        d["components"]["schemas"] = dict(items[:pos] + new + items[pos:])
        return d
    if kind == "bad_sibling_method":
        paths = list(d.get("paths", {}).items())
        if paths:
            pth, item = paths[position % len(paths)]
            for m in ("trace", "patch", "head", "options"):
                if m not in item:
                    item[m] = {"operationId": "zzBadSibling", "parameters": [{"name": "zz", "in": "query", "schema": {"type": "array"}}], "responses": {"204": {"description": "n"}}}
                    break
        return d
    if kind == "shares_ref_then_bad":
        tgt = _shared_target(doc)
        items = list(comps.items())
        props = {"a-first": {"$ref": f"#/components/schemas/{tgt}"}, "z-bad": {"type": "array"}} if tgt else {"z-bad": {"type": "array"}}
        new = [("ZzBadPiece", {"type": "object", "properties": props})]
        pos = position % (len(items) + 1)
        d["components"]["schemas"] = dict(items[:pos] + new + items[pos:])
    elif kind in BAD_SCHEMAS:
        items = list(comps.items())
        new = [("ZzBadLeafEnum", {"type": "string", "enum": ["zz"]})] if kind == "allof_non_object" else []
        new.append(("ZzBadPiece", copy.deepcopy(BAD_SCHEMAS[kind])))
        if dependant:
            new.append(("ZzDependsOnBad", {"type": "object", "properties": {"uses": {"$ref": "#/components/schemas/ZzBadPiece"}}}))
            new.append(("ZzDependsOnDependant", {"type": "object", "properties": {"uses2": {"type": "array", "items": {"$ref": "#/components/schemas/ZzDependsOnBad"}}}}))
        pos = position % (len(items) + 1)
        d["components"]["schemas"] = dict(items[:pos] + new + items[pos:])
    else:
        paths = list(d.get("paths", {}).items())
        pos = position % (len(paths) + 1)
        p = "/zz/bad/{id}" if kind == "optional_path_param" else "/zz/bad"
        d["paths"] = dict(paths[:pos] + [(p, {"get": copy.deepcopy(BAD_OPERATIONS[kind])})] + paths[pos:])
    return d


def bad_piece_one(doc: dict, kind: str, position: int, dependant: bool) -> list[str]:
    root = gen.scratch("verif-bad-")
    try:
        e0, p0 = gen.generate(_clean_for(doc, kind, position), root, "sk_clean")
        bad = _with_bad(doc, kind, position, dependant)
        e1, p1 = gen.generate(bad, root, "sk_bad")
        if not p1.exists():
            return [f"nothing generated for the document with the bad piece: {[e.detail for e in e1][:2]}"]
        f0 = {k: v.replace(b"sk_clean", b"PKG") for k, v in gen.tree_files(p0).items()}
        f1 = {k: v.replace(b"sk_bad", b"PKG") for k, v in gen.tree_files(p1).items()}
        probs = []
        if len(e1) <= len(e0) and kind != "bad_overridden_pathitem_param":  # (an overridden parameter is never looked at)
            probs.append("no additional diagnostic for the bad piece")
        for k, v in f0.items():
            if k.endswith("__init__.py"):
                continue
            if k not in f1:
                probs.append(f"module {k} is generated for the clean document but missing when the bad piece is present")
            elif f1[k] != v:
                probs.append(f"module {k} differs when the bad piece is present")
        extra = [k for k in f1 if k not in f0 and not k.endswith("__init__.py")]
        allowed = ("zz_bad", "zz_depends", "zz_bad_sibling")
        for k in extra:
            if not any(a in k for a in allowed):
                probs.append(f"unexpected extra module {k}")
        probs += compile_and_import(p1, root, "sk_bad")
        return probs
    finally:
        gen.cleanup(root)


def bad_pieces(tier: str = "quick", known: list | None = None, **_: Any) -> dict:
    rnd = random.Random(seed())
    docs = all_skeleton_docs()
    names = sorted(docs)
    if tier == "quick":
        names = [n for n in names if n.split(":")[1] in ("nested", "allof", "params", "responses")]
    kinds = list(BAD_SCHEMAS) + list(BAD_OPERATIONS) + EXTRA_KINDS
    wit, n = [], 0
    for name in names:
        for kind in kinds:
            if kind in ("bad_sibling_method", "bad_overridden_pathitem_param"):
                if not name.startswith("endpoint:"):
                    continue
                positions = list(range(len(docs[name].get("paths", {})))) if tier == "thorough" or name.endswith(("responses", "bodies")) else [rnd.randint(0, 5)]
            else:
                positions = [0, 1, 99] if tier == "thorough" else ([0, rnd.randint(1, 5)] if kind == "shares_ref_then_bad" else [rnd.randint(0, 5)])
            for pos in positions:
                for dep in ((False, True) if kind in BAD_SCHEMAS else (False,)):
                    if kind in ("shares_ref_then_bad", "bad_inline_name_collision") and not name.startswith("model:"):
                        continue
                    n += 1
                    probs = bad_piece_one(docs[name], kind, pos, dep)
                    if probs:
                        wit.append({"what": f"bad piece '{kind}' (dependants={dep}) at position {pos} in skeleton {name} damages unrelated output", "input": {"skeleton": name, "kind": kind, "position": pos, "dependant": dep}, "observed": probs[:5], "reproduced": True, "replay_func": "vlib.replay_checks:replay_bad_piece"})
    return result("violated" if wit else "holds", f"{n} (document, bad piece, position) insertions: surviving modules byte-identical, all import", queries=n, witnesses=wit[:5], cases=[f"bad:{k}" for k in kinds], bounds={"documents": names, "bad pieces": kinds}, stubs=["replay oracle: concrete differential runs over a finite choice set, not a solver verdict"])


def replay_bad_piece(w: dict) -> dict:
    i = w["input"]
    probs = bad_piece_one(all_skeleton_docs()[i["skeleton"]], i["kind"], i["position"], i["dependant"])
    return {"reproduced": bool(probs), "observed": probs[:5]}


# ------------------------------------------------------------------------------------------------ twins (C17 / C20 / C16)
def _gen_files(doc: Any, package: str = "sk_twin", as_yaml: bool = False, **cf: Any) -> tuple[dict, list]:
    root = gen.scratch("verif-twin-")
    try:
        if as_yaml:
            import openapi_python_client as opc
            from ruamel.yaml import YAML
            import io
            import contextlib

            root.mkdir(parents=True, exist_ok=True)
            dp = root / "doc.yaml"
            # block-style YAML with the mapping order of the document preserved (the safe dumper would sort keys)
            y = YAML()
            y.default_flow_style = as_yaml == "flow"  # "flow": the whole document as one {…} flow mapping (valid YAML, not JSON: plain scalars)
            if as_yaml == "flow":
                y.width = 100000
            with dp.open("w") as f:
                y.dump(doc, f)
            cfg = gen.make_config(dp, root / package, package_name_override=package, **cf)
            with contextlib.redirect_stdout(io.StringIO()):
                errs = opc.generate(config=cfg)
            pdir = root / package
        else:
            errs, pdir = gen.generate(doc, root, package, **cf)
        return (gen.tree_files(pdir) if pdir.exists() else {}), [str(e.detail) for e in errs]
    finally:
        gen.cleanup(root)


def inline_twin(doc: dict) -> dict:
    """Rewrite every reference to a components/parameters, /responses, /requestBodies entry by the inline component."""
    d = copy.deepcopy(doc)
    comps = d.get("components", {})

    def res(node: Any, depth: int = 0) -> Any:
        while isinstance(node, dict) and "$ref" in node and not node["$ref"].startswith("#/components/schemas/") and depth < 10:
            parts = node["$ref"][2:].split("/")
            node = copy.deepcopy(d)
            for p in parts:
                node = node[p]
            depth += 1
        return node

    for item in d.get("paths", {}).values():
        if "parameters" in item:
            item["parameters"] = [res(p) for p in item["parameters"]]
        for method, op in item.items():
            if not isinstance(op, dict):
                continue
            if "parameters" in op:
                op["parameters"] = [res(p) for p in op["parameters"]]
            if "requestBody" in op:
                op["requestBody"] = res(op["requestBody"])
            for code, r in (op.get("responses") or {}).items():
                op["responses"][code] = res(r)
    for k in ("parameters", "responses", "requestBodies"):
        comps.pop(k, None)
    return d


def ref_twins_doc() -> dict:
    from .skeletons import INT, STR, doc, jresp, obj, param, ref

    leaf = obj({"leaf-id": INT, "tag": STR}, ["leaf-id"])
    return doc(
        {"Leaf": leaf, "Color": {"type": "string", "enum": ["red", "dark blue"]}},
        {
            "/t/{the-id}": {
                "parameters": [{"$ref": "#/components/parameters/TheId"}, {"$ref": "#/components/parameters/Trace"}],
                "get": {"operationId": "getT", "parameters": [{"$ref": "#/components/parameters/Limit"}, {"$ref": "#/components/parameters/ColorQ"}], "responses": {"200": {"$ref": "#/components/responses/LeafResp"}, "404": {"$ref": "#/components/responses/Empty"}}},
                "post": {"operationId": "postT", "requestBody": {"$ref": "#/components/requestBodies/LeafBody"}, "responses": {"200": {"$ref": "#/components/responses/LeafList"}}},
            }
        },
        parameters={
            "TheId": param("the-id", "path", STR),
            "Trace": param("X-Trace", "header", STR),
            "Limit": param("limit", "query", INT, True),
            "ColorQ": param("color-q", "query", ref("Color")),
        },
        responses={"LeafResp": jresp(ref("Leaf")), "Empty": {"description": "nothing"}, "LeafList": jresp({"type": "array", "items": ref("Leaf")})},
        requestBodies={"LeafBody": {"$ref": "#/components/requestBodies/LeafBody2"}, "LeafBody2": {"required": True, "content": {"application/json": {"schema": ref("Leaf")}}}},
    )


def allof_inline_twin(doc: dict) -> tuple[dict, list[str]]:
    """Rewrite every `$ref` *member of an allOf* by an inline copy of the referenced schema.  Returns the twin and the
    module names of the component schemas the rewrite did not touch: their modules must not notice the difference
    (using a schema through a reference must not change the referenced class)."""
    from openapi_python_client import utils

    d = copy.deepcopy(doc)
    schemas = d["components"]["schemas"]

    def inline(s: Any, depth: int = 0) -> Any:
        if isinstance(s, dict) and "$ref" in s and depth < 8:
            return inline(copy.deepcopy(doc["components"]["schemas"][s["$ref"].rsplit("/", 1)[1]]), depth + 1)
        if isinstance(s, dict) and "allOf" in s:
            s = dict(s)
            s["allOf"] = [inline(m, depth + 1) for m in s["allOf"]]
        return s

    untouched = []
    for name, s in schemas.items():
        if isinstance(s, dict) and "allOf" in s:
            schemas[name] = inline(s)
        else:
            untouched.append(f"models/{utils.PythonIdentifier(name, '')}.py")
    return d, untouched


def ref_inline_twins(tier: str = "quick", known: list | None = None, **_: Any) -> dict:
    """C20 replay: endpoint modules generated from referenced components are byte-identical to the inline twin."""
    from . import skeletons as sk

    docs = {"ref_twins": ref_twins_doc(), "bodies": sk.endpoint_skeletons()["bodies"], "responses": sk.endpoint_skeletons()["responses"]}
    wit, n = [], 0
    for name, d in docs.items():
        a, ea = _gen_files(d)
        b, eb = _gen_files(inline_twin(d))
        n += 1
        diff = sorted(k for k in set(a) | set(b) if a.get(k) != b.get(k))
        if diff or ea != eb:
            wit.append({"what": f"{name}: referenced components do not generate the same code as their inline twins", "input": {"doc": name}, "observed": {"differing_files": diff[:8], "errors_ref": ea[:2], "errors_inline": eb[:2]}, "reproduced": True, "replay_func": "vlib.replay_checks:replay_ref_inline"})
    # schema position: an allOf member by reference vs. an inline copy leaves the referenced class as it is
    d = sk.model_skeletons()["allof"]
    twin, untouched = allof_inline_twin(d)
    a, ea = _gen_files(d)
    b, eb = _gen_files(twin)
    n += 1
    diff = sorted(k for k in untouched if a.get(k) != b.get(k))
    if diff:
        wit.append({"what": "allof: a class changes when another schema uses it as an allOf member by reference instead of an inline copy", "input": {"doc": "allof-members"}, "observed": {"differing_files": diff[:8], "errors_ref": ea[:2], "errors_inline": eb[:2]}, "reproduced": True, "replay_func": "vlib.replay_checks:replay_ref_inline"})
    docs["allof-members"] = d
    return result("violated" if wit else "holds", f"{n} reference/inline twin pairs byte-identical", queries=n, witnesses=wit, cases=[f"twin:{k}" for k in docs], stubs=["replay oracle: concrete runs, not a solver verdict"])


def replay_ref_inline(w: dict) -> dict:
    from . import skeletons as sk

    docs = {"ref_twins": ref_twins_doc(), "bodies": sk.endpoint_skeletons()["bodies"], "responses": sk.endpoint_skeletons()["responses"]}
    if w["input"]["doc"] == "allof-members":
        d = sk.model_skeletons()["allof"]
        twin, untouched = allof_inline_twin(d)
        a, _ = _gen_files(d)
        b, _ = _gen_files(twin)
        diff = sorted(k for k in untouched if a.get(k) != b.get(k))
        return {"reproduced": bool(diff), "observed": diff[:8]}
    d = docs[w["input"]["doc"]]
    a, ea = _gen_files(d)
    b, eb = _gen_files(inline_twin(d))
    diff = sorted(k for k in set(a) | set(b) if a.get(k) != b.get(k))
    return {"reproduced": bool(diff) or ea != eb, "observed": diff[:8]}


# ------------------------------------------------------------------------------------------------ C17 twins
def _rewrite(node: Any, fn: Any) -> Any:
    if isinstance(node, dict):
        node = fn({k: _rewrite(v, fn) for k, v in node.items()})
        return node
    if isinstance(node, list):
        return [_rewrite(v, fn) for v in node]
    return node


def equivalent_documents(tier: str = "quick", known: list | None = None, **_: Any) -> dict:
    """C17 replay: notation rewrites give byte-identical trees."""
    from . import skeletons as sk
    from .skeletons import INT, STR, doc, obj, ref

    wit, n = [], 0

    def compare(label: str, a: dict, b: dict, yaml_b: Any = False) -> None:
        nonlocal n
        n += 1
        fa, ea = _gen_files(a)
        fb, eb = _gen_files(b, as_yaml=yaml_b)
        diff = sorted(k for k in set(fa) | set(fb) if fa.get(k) != fb.get(k))
        if diff or ea != eb:
            wit.append({"what": f"equivalent documents differ: {label}", "input": {"label": label}, "observed": {"differing_files": diff[:6], "errors_a": ea[:2], "errors_b": eb[:2]}, "reproduced": True, "replay_func": "vlib.replay_checks:replay_equivalent"})

    # JSON vs YAML serialisation of every skeleton
    for name, d in sorted(all_skeleton_docs().items()):
        if tier == "quick" and name.split(":")[1] not in ("nested", "unions", "params", "enums"):
            continue
        compare(f"json-vs-yaml:{name}", d, d, yaml_b=True)
        if name.split(":")[1] in ("nested", "params"):
            compare(f"json-vs-flow-yaml:{name}", d, d, yaml_b="flow")
    # 3.0 nullable vs 3.1 type list
    base30 = doc({"M": obj({"a-s": {"type": "string", "nullable": True}, "b-i": {"type": "integer", "nullable": True}, "c-l": {"type": "array", "items": STR, "nullable": True}, "d-m": {"nullable": True, "allOf": [ref("Leaf")]}}, ["a-s"]), "Leaf": obj({"x": INT})}, version="3.0.3")

    def to31(nd: dict) -> dict:
        if nd.get("nullable") is True and isinstance(nd.get("type"), str):
            nd = {k: v for k, v in nd.items() if k != "nullable"}
            nd["type"] = [nd["type"], "null"]
        elif nd.get("nullable") is True and "allOf" in nd:
            nd = {"oneOf": [{"type": "null"}, nd["allOf"][0]]}  # member order as the normaliser writes it (order is not part of the rewrite)
        return nd

    d31 = _rewrite(copy.deepcopy(base30), to31)
    d31["openapi"] = "3.1.0"
    compare("nullable-3.0-vs-3.1-type-list", base30, d31)
    # enum with null vs explicit union; single-element wrappers vs bare reference
    e1 = doc({"E": obj({"e": {"enum": ["a", "b", None]}, "e-dflt": {"type": "string", "enum": ["q", "d", None], "default": "q"}}), "W": obj({"w1": {"allOf": [ref("Leaf")]}, "w2": {"oneOf": [ref("Leaf")]}, "w3": {"anyOf": [ref("Leaf")]}}), "Leaf": obj({"x": INT})})
    e2 = doc({"E": obj({"e": {"oneOf": [{"type": "null"}, {"enum": ["a", "b"]}]}, "e-dflt": {"oneOf": [{"type": "null"}, {"type": "string", "enum": ["q", "d"]}], "default": "q"}}), "W": obj({"w1": ref("Leaf"), "w2": ref("Leaf"), "w3": ref("Leaf")}), "Leaf": obj({"x": INT})})
    compare("enum-with-null-vs-union+wrappers-vs-bare-ref", e1, e2)
    return result("violated" if wit else "holds", f"{n} pairs of equivalent documents generate byte-identical trees", queries=n, witnesses=wit[:4], cases=["json-vs-yaml", "nullable-30-vs-31", "enum-null-vs-union", "single-ref-wrappers"], stubs=["replay oracle: concrete runs, not a solver verdict"])


def replay_equivalent(w: dict) -> dict:
    r = equivalent_documents(tier="thorough")
    hit = [x for x in r["witnesses"] if x["input"]["label"] == w["input"]["label"]]
    return {"reproduced": bool(hit), "observed": hit[0]["observed"] if hit else None}


# ------------------------------------------------------------------------------------------------ C19 histories
def _tree(root: Path) -> dict:
    return {str(p.relative_to(root)): p.read_bytes() for p in sorted(root.rglob("*")) if p.is_file() and "__pycache__" not in p.parts and not p.name.endswith(".doc.json")}


def _history_docs() -> dict:
    from .skeletons import INT, STR, doc, jresp, obj, param, ref

    a = doc({"Alpha": obj({"a": INT}), "Shared": obj({"s": STR})}, {"/a": {"get": {"operationId": "getA", "tags": ["one"], "responses": {"200": jresp(ref("Alpha"))}}}})
    b = doc({"Beta": obj({"b": STR}), "Shared": obj({"s": STR, "t": INT})}, {"/b": {"post": {"operationId": "postB", "tags": ["two"], "parameters": [param("q", "query", STR)], "responses": {"200": jresp(ref("Beta"))}}}})
    return {"A": a, "B": b}


def run_history(hist: list, meta: str = "none") -> list[str]:
    """hist: list of (doc key, overwrite, add_user_file_before)."""
    docs = _history_docs()
    root = gen.scratch("verif-hist-")
    probs = []
    try:
        out_parent = root / "parent"
        out_parent.mkdir()
        (out_parent / "sibling.txt").write_text("do not touch")
        target_name = "client_pkg"
        user_files: dict[str, bytes] = {}
        last_pkg = None
        for step, (dk, overwrite, user) in enumerate(hist):
            target = out_parent / target_name
            if user and target.exists():
                uf = (target / "models" / "my_notes.txt") if (target / "models").exists() and step % 2 else (target / "USER_FILE.md")
                uf.write_bytes(b"user data %d" % step)
                if last_pkg is not None and last_pkg.exists():
                    # the user's own module and sub-package next to client.py (inside the package, outside models/ and api/)
                    (last_pkg / "user_helpers.py").write_bytes(b"user data helpers %d" % step)
                    (last_pkg / "custom_user").mkdir(exist_ok=True)
                    (last_pkg / "custom_user" / "auth.py").write_bytes(b"user data auth %d" % step)
            before = _tree(out_parent)
            existed = target.exists()
            errs, pdir = gen.generate(docs[dk], out_parent, target_name, meta=meta, overwrite=overwrite)
            last_pkg = pdir if pdir is not None and pdir.exists() else last_pkg
            after = _tree(out_parent)
            outside = {k for k in set(before) | set(after) if not k.startswith(target_name + "/") and before.get(k) != after.get(k)}
            if outside:
                probs.append(f"step {step}: files outside the output directory changed: {sorted(outside)[:3]}")
            if existed and not overwrite:
                if before != after:
                    probs.append(f"step {step}: existing directory modified without --overwrite: {sorted(k for k in set(before) | set(after) if before.get(k) != after.get(k))[:3]}")
                if len(errs) != 1 or getattr(errs[0].level, "value", "") != "ERROR":
                    probs.append(f"step {step}: expected exactly one error, got {[e.detail for e in errs]}")
            else:
                fresh_root = gen.scratch("verif-hist-fresh-")
                try:
                    gen.generate(docs[dk], fresh_root, target_name, meta=meta)
                    fresh = _tree(fresh_root)
                finally:
                    gen.cleanup(fresh_root)
                mine = {k: v for k, v in after.items() if k.startswith(target_name + "/")}
                for k, v in fresh.items():
                    if mine.get(k) != v:
                        probs.append(f"step {step}: {k} differs from a fresh generation of document {dk}")
                        break
                extra = sorted(k for k in mine if k not in fresh)
                # user files outside models/ and api/ must survive untouched; anything else extra is stale output
                for k in extra:
                    rel = k[len(target_name) + 1:]
                    in_rebuilt = rel.startswith(("models/", "api/")) or "/models/" in rel or "/api/" in rel
                    if k in before and before[k].startswith(b"user data") and not in_rebuilt:
                        if after[k] != before[k]:
                            probs.append(f"step {step}: user file {k} was modified")
                    elif in_rebuilt:
                        probs.append(f"step {step}: stale module {k} from an earlier generation survives --overwrite")
                    elif not before.get(k, b"").startswith(b"user data"):
                        probs.append(f"step {step}: unexpected leftover file {k}")
                for k, v in before.items():
                    rel = k[len(target_name) + 1:] if k.startswith(target_name + "/") else k
                    if v.startswith(b"user data") and not (rel.startswith(("models/", "api/")) or "/models/" in rel or "/api/" in rel) and after.get(k) != v:
                        probs.append(f"step {step}: user file {k} did not survive")
        return probs
    finally:
        gen.cleanup(root)


def histories(tier: str = "quick", known: list | None = None, **_: Any) -> dict:
    import itertools

    steps = [(d, o, u) for d in ("A", "B") for o in (False, True) for u in (False, True)]
    L = 2 if tier == "quick" else 3
    wit, n = [], 0
    for meta in (("none", "poetry") if tier == "quick" else ("none", "poetry", "setup", "pdm")):
        for hist in itertools.product(steps, repeat=L):
            if meta != "none" and tier == "quick" and n % 3:
                n += 1
                continue
            n += 1
            probs = run_history(list(hist), meta)
            if probs:
                wit.append({"what": f"history {hist} (meta={meta}) violates no-clobber / convergence", "input": {"history": [list(h) for h in hist], "meta": meta}, "history": True, "observed": probs[:4], "reproduced": True, "replay_func": "vlib.props.C19:replay"})
                if len(wit) > 5:
                    break
    return result("violated" if wit else "holds", f"{n} histories of length {L} against one output location", queries=n, witnesses=wit[:5], cases=["no-clobber", "overwrite-converges", "user-files-survive", "nothing-outside"], bounds={"history length": L, "documents": 2, "steps": 8}, stubs=["replay oracle: concrete runs of the real generator against scratch directories, not a solver verdict"])


def replay_history(w: dict) -> dict:
    probs = run_history([tuple(h) for h in w["input"]["history"]], w["input"]["meta"])
    return {"reproduced": bool(probs), "observed": probs[:4]}


# ------------------------------------------------------------------------------------------------ C16 option effects
def _option_cases() -> dict:
    from . import skeletons as sk

    d = sk.endpoint_skeletons()["responses"]
    return {
        "meta_adds_only_metadata": d,
        "package_version_override": d,
        "project_and_package_name_override": d,
        "generate_all_tags": sk.doc({"Leaf": sk.obj({"x": sk.INT})}, {"/t": {"get": {"operationId": "multiTag", "tags": ["first tag", "second"], "responses": {"200": sk.jresp(sk.ref("Leaf"))}}}}),
    }


def option_effect_one(option: str) -> list[str]:
    cases = _option_cases()
    d = cases[option]
    probs: list[str] = []
    root = gen.scratch("verif-opt-")
    try:
        if option == "meta_adds_only_metadata":
            _, base = gen.generate(d, root, "base_none", meta="none")
            fb = {k: v.replace(b"base_none", b"PKG") for k, v in gen.tree_files(base).items()}
            for meta in ("poetry", "pdm", "setup"):
                _, p = gen.generate(d, root, f"m_{meta}", meta=meta)
                fp = {k: v.replace(f"m_{meta}_pkg".encode(), b"PKG") for k, v in gen.tree_files(p).items()}
                for k, v in fb.items():
                    if fp.get(k) != v:
                        probs.append(f"meta={meta}: package file {k} differs from the meta=none generation")
                extra = set(fp) - set(fb)
                if extra != {"py.typed"}:
                    probs.append(f"meta={meta}: unexpected extra package files {sorted(extra)}")
                top = {q.name for q in (root / f"m_{meta}").iterdir() if q.name != f"m_{meta}_pkg"}
                want = {"pyproject.toml", "README.md", ".gitignore"} | ({"setup.py"} if meta == "setup" else set())
                if top != want:
                    probs.append(f"meta={meta}: project files {sorted(top)} != {sorted(want)}")
        elif option == "package_version_override":
            import tomllib

            gen.generate(d, root, "v", meta="poetry", package_version_override="9.9.9")
            gen.generate(d, root, "w", meta="poetry")
            tv = tomllib.loads((root / "v" / "pyproject.toml").read_text())["tool"]["poetry"]["version"]
            tw = tomllib.loads((root / "w" / "pyproject.toml").read_text())["tool"]["poetry"]["version"]
            if tv != "9.9.9" or tw != "1.0":
                probs.append(f"version override: got {tv!r} / {tw!r}")
            a = {k: v for k, v in gen.tree_files(root / "v" / "v_pkg").items()}
            b = {k: v for k, v in gen.tree_files(root / "w" / "w_pkg").items()}
            if {k: x.replace(b"v_pkg", b"P") for k, x in a.items()} != {k: x.replace(b"w_pkg", b"P") for k, x in b.items()}:
                probs.append("package_version_override changed package files")
        elif option == "project_and_package_name_override":
            _, p1 = gen.generate(d, root, "one", meta="poetry", project_name_override="proj-x", package_name_override="pkg_x")
            if not (root / "one").exists():
                probs.append("output path not honoured")
            if p1.name != "pkg_x" or not p1.exists():
                probs.append(f"package dir {p1} does not follow package_name_override")
        elif option == "generate_all_tags":
            _, p0 = gen.generate(d, root, "t_first")
            _, p1 = gen.generate(d, root, "t_all", generate_all_tags=True)
            f0, f1 = gen.tree_files(p0), gen.tree_files(p1)
            m0 = [k for k in f0 if k.startswith("api/") and k.endswith("multi_tag.py")]
            m1 = [k for k in f1 if k.startswith("api/") and k.endswith("multi_tag.py")]
            if m0 != ["api/first_tag/multi_tag.py"]:
                probs.append(f"default: expected only the first tag, got {m0}")
            if sorted(m1) != ["api/first_tag/multi_tag.py", "api/second/multi_tag.py"]:
                probs.append(f"generate_all_tags: expected a module under every tag, got {m1}")
            elif f1[m1[0]] != f1[m1[1]] or f1[m1[0]].replace(b"t_all", b"P") != f0[m0[0]].replace(b"t_first", b"P"):
                probs.append("generate_all_tags: the modules under the tags are not identical to the single-tag module")
        return probs
    finally:
        gen.cleanup(root)


def option_effects(tier: str = "quick", known: list | None = None, **_: Any) -> dict:
    wit, n = [], 0
    for opt in _option_cases():
        n += 1
        probs = option_effect_one(opt)
        if probs:
            wit.append({"what": f"option {opt} has an undocumented effect", "input": {"option": opt}, "observed": probs[:4], "reproduced": True, "replay_func": "vlib.props.C16:replay"})
    return result("violated" if wit else "holds", f"{n} option effects compared on generated trees", queries=n, witnesses=wit, cases=list(_option_cases()), stubs=["replay oracle: concrete runs, not a solver verdict"])


def replay_option_effect(w: dict) -> dict:
    probs = option_effect_one(w["input"]["option"])
    return {"reproduced": bool(probs), "observed": probs[:4]}


def dangling_imports(pkg_dir: Path) -> list[str]:
    """Every `from ..models.X import Y` / `from ...models.X import Y` anywhere in a generated module (top level,
    TYPE_CHECKING block or inside a function) must name a module file that exists and a name it defines."""
    import ast

    defined: dict[str, set] = {}
    mdir = pkg_dir / "models"
    for p in mdir.glob("*.py"):
        try:
            tree = ast.parse(p.read_text(encoding="utf-8"))
        except SyntaxError:
            continue
        names = set()
        for node in tree.body:
            if isinstance(node, (ast.ClassDef, ast.FunctionDef)):
                names.add(node.name)
            elif isinstance(node, ast.Assign):
                names |= {t.id for t in node.targets if isinstance(t, ast.Name)}
            elif isinstance(node, ast.AnnAssign) and isinstance(node.target, ast.Name):
                names.add(node.target.id)
        defined[p.stem] = names
    problems = []
    for p in pkg_dir.rglob("*.py"):
        try:
            tree = ast.parse(p.read_text(encoding="utf-8"))
        except SyntaxError:
            continue
        for node in ast.walk(tree):
            if isinstance(node, ast.ImportFrom) and node.module and node.module.startswith("models.") and node.level >= 1:
                mod = node.module.split(".", 1)[1]
                if mod not in defined:
                    problems.append(f"{p.relative_to(pkg_dir)} imports from models.{mod}, which was not generated")
                else:
                    for a in node.names:
                        if a.name not in defined[mod]:
                            problems.append(f"{p.relative_to(pkg_dir)} imports {a.name} from models.{mod}, which does not define it")
    return sorted(set(problems))


# ---------------------------------------------------------------------------------------------- C11: mypy gate
_MYPY_FLAGS = ["--disallow-any-generics", "--disallow-untyped-defs", "--warn-redundant-casts", "--strict-equality", "--disable-error-code=import-untyped", "--no-incremental", "--cache-dir=/dev/null", "--no-error-summary", "--hide-error-context"]
# a component schema named like a helper the enum templates import shadows that import for mypy (runs fine): probe document
_ENUM_NAME_PROBE = {
    "openapi": "3.1.0",
    "info": {"title": "p", "version": "1"},
    "paths": {},
    "components": {"schemas": {"IntEnum": {"type": "integer", "enum": [1, 2]}, "StrEnum": {"type": "string", "enum": ["a", "b"]}, "Holder": {"type": "object", "properties": {"i": {"$ref": "#/components/schemas/IntEnum"}, "s": {"$ref": "#/components/schemas/StrEnum"}}}}},
}


def _mypy(root: Path, pkgs: list[str]) -> dict[str, list[str]] | None:
    """Runs mypy with the repository's own strictness flags ([tool.mypy] of /repo/pyproject.toml; the pydantic plugin is
    irrelevant to generated clients) over the packages under root.  Returns {package: [error lines]} or None if mypy is missing."""
    pr = subprocess.run(["/venv/bin/python", "-m", "mypy", *_MYPY_FLAGS, *pkgs], capture_output=True, text=True, cwd=str(root), timeout=900)
    if "No module named mypy" in pr.stderr:
        return None
    out: dict[str, list[str]] = {p: [] for p in pkgs}
    for line in pr.stdout.splitlines():
        if ": error:" not in line:
            continue
        pkg = line.split("/", 1)[0]
        out.setdefault(pkg, []).append(line)
    if pr.returncode not in (0, 1):
        out.setdefault("<mypy>", []).append((pr.stderr or pr.stdout)[-400:])
    return out


def _classify_mypy(pkg: str, line: str, cf: dict) -> str | None:
    if pkg == "sk_probe_enum_names":
        return "C11-F2"
    if "[redundant-cast]" in line and cf.get("literal_enums") and "/models/" in line:
        return "C11-F1"
    return None


def typecheck(tier: str = "quick", known: list | None = None, **_: Any) -> dict:
    """C11 gate (concrete, engine=replay): every skeleton client passes mypy under the project's own strictness flags,
    in both enum styles.  Error lines of a recorded class are known findings; any other error line is a violation."""
    t0 = time.time()
    docs = all_skeleton_docs()
    root = gen.scratch("verif-mypy-")
    cfg: dict[str, tuple[str, dict]] = {}
    try:
        for name, d in sorted(docs.items()):
            for cf in ({}, {"literal_enums": True}):
                pkg = "sk_" + name.split(":")[1] + ("_le" if cf else "")
                errs, _ = gen.generate(d, root, pkg, **cf)
                cfg[pkg] = (name, cf)
        gen.generate(_ENUM_NAME_PROBE, root, "sk_probe_enum_names")
        cfg["sk_probe_enum_names"] = ("probe:enum_names", {})
        res = _mypy(root, sorted(cfg))
    finally:
        gen.cleanup(root)
    if res is None:
        return result("inconclusive", "mypy is not installed in /venv", stubs=["replay oracle"])
    known_ids = {e["id"] for e in (known or [])}
    hits: set[str] = set()
    wit = []
    for pkg, lines in sorted(res.items()):
        name, cf = cfg.get(pkg, ("?", {}))
        bad = []
        for ln in lines:
            c = _classify_mypy(pkg, ln, cf)
            if c is not None and c in known_ids:
                hits.add(c)
            else:
                bad.append(ln)
        if bad:
            wit.append({"what": f"generated client for skeleton {name} ({cf}) does not pass mypy", "input": {"skeleton": name, "config": cf}, "observed": bad[:6], "reproduced": True, "replay_func": "vlib.replay_checks:replay_typecheck"})
    n = len(cfg)
    return result(
        "violated" if wit or hits else "holds", f"{n} generated packages type-checked with mypy ({sum(len(v) for v in res.values())} error lines, {len(hits)} known classes)",
        queries=n, witnesses=wit[:6], known_hits=sorted(hits), bounds={"documents": "skeleton family x both enum styles + enum-name probe", "flags": " ".join(_MYPY_FLAGS[:4])},
        samples=[{"packages": n, "wall_s": round(time.time() - t0, 1)}], cases=[f"typecheck:{p}" for p in cfg], stubs=["replay oracle: mypy on concrete packages, not a solver verdict"],
    )


def replay_typecheck(w: dict) -> dict:
    i = w["input"]
    d = _ENUM_NAME_PROBE if i["skeleton"].startswith("probe:") else all_skeleton_docs()[i["skeleton"]]
    root = gen.scratch("verif-mypy-")
    try:
        gen.generate(d, root, "sk_replay", **i["config"])
        res = _mypy(root, ["sk_replay"]) or {}
        lines = [ln for ln in res.get("sk_replay", []) if _classify_mypy("sk_replay", ln, i["config"]) is None]
        return {"reproduced": bool(lines), "observed": lines[:6]}
    finally:
        gen.cleanup(root)


# ---------------------------------------------------------------------------------------------- C06: loaders gate
_LOADER_CASES = {
    "empty": b"", "bom": b"\xef\xbb\xbf{}", "badutf8": b"\xff\xfe\x00{", "open": b"{", "list": b"- a\n- b\n", "null": b"null", "int": b"42", "nul": b"\x00",
    "deep3k": b"[" * 3000, "deep100k_json_only": b"[" * 100000, "tab": b"a:\n\t- b", "anchor": b"a: &a [*a]", "dupkeys": b'{"a":1,"a":2}', "nan": b'{"openapi": NaN}',
    "bigint": b'{"openapi": ' + b"9" * 5000 + b"}", "yaml_tag": b"!!python/object/apply:os.system ['true']", "merge": b"<<: *x", "ctrl": b"a: \x01", "utf16": "{}".encode("utf-16"),
    "alias_self": b"&a a: *a", "colon": b":", "qmark": b"? ", "str": b'"just a string"', "float": b"1e400", "timestamp": b"2001-12-14t21:59:43.10-05:00", "setkey": b"? [a]\n: b",
    "swagger": b'{"swagger": "2.0"}', "openapi_only": b'{"openapi": "3.1.0"}', "paths_list": b'{"openapi":"3.1.0","info":{"title":"t","version":"1"},"paths":[]}',
}
_LOADER_SCRIPT = r"""
import sys, io, contextlib, pathlib, json
from openapi_python_client import generate
from openapi_python_client.config import Config, ConfigFile, MetaType
f = pathlib.Path(sys.argv[1]); out = pathlib.Path(sys.argv[2])
cfg = Config.from_sources(ConfigFile(post_hooks=[]), MetaType.NONE, f, "utf-8", True, out)
try:
    with contextlib.redirect_stdout(io.StringIO()):
        errs = generate(config=cfg)
    print(json.dumps({"raised": None, "diagnostics": len(errs), "errors": sum(getattr(e.level, "value", "") == "ERROR" for e in errs), "written": out.exists()}))
except BaseException as e:
    print(json.dumps({"raised": type(e).__name__ + ": " + str(e)[:120]}))
"""


def _loader_case(name: str, ext: str) -> str | None:
    """None when the document (junk by construction) is rejected with an error-level diagnostic and nothing is written."""
    data = _LOADER_CASES[name]
    root = gen.scratch("verif-load-")
    try:
        f = root / ("doc" + ext)
        f.write_bytes(data)
        pr = subprocess.run([PY, "-c", _LOADER_SCRIPT, str(f), str(root / "out")], capture_output=True, text=True, timeout=300)
        if pr.returncode != 0 and not pr.stdout.strip():
            return f"the interpreter died (exit {pr.returncode}) on {name}{ext}"
        r = json.loads(pr.stdout.strip().splitlines()[-1])
        if r["raised"]:
            return f"{name}{ext}: unhandled {r['raised']}"
        if r["errors"] == 0:
            return f"{name}{ext}: junk accepted without an error-level diagnostic"
        if r["written"]:
            return f"{name}{ext}: the document was rejected but the output directory was created"
        return None
    finally:
        gen.cleanup(root)


def loaders(tier: str = "quick", known: list | None = None, **_: Any) -> dict:
    """C06 gate (concrete, engine=replay): junk bytes offered as JSON and as YAML are rejected with a diagnostic, no
    exception escapes `generate`, nothing is written.  The loaders are C code (json, ruamel.yaml): no solver encoding."""
    known_ids = {e["id"] for e in (known or [])}
    wit, hits, n = [], set(), 0
    for name in _LOADER_CASES:
        for ext in (".json", ".yaml"):
            if name == "deep100k_json_only" and ext == ".yaml":
                continue  # probed below as the recorded finding
            n += 1
            p = _loader_case(name, ext)
            if p:
                wit.append({"what": "junk input is not turned into a diagnostic", "input": {"case": name, "ext": ext}, "observed": p, "reproduced": True, "replay_func": "vlib.replay_checks:replay_loader"})
    # recorded finding: YAML nested deeper than the C stack of ruamel's scanner kills the interpreter
    n += 1
    p = _loader_case("deep100k_json_only", ".yaml")
    if p:
        if "C06-F2" in known_ids and "interpreter died" in p:
            hits.add("C06-F2")
        else:
            wit.append({"what": "junk input is not turned into a diagnostic", "input": {"case": "deep100k_json_only", "ext": ".yaml"}, "observed": p, "reproduced": True, "replay_func": "vlib.replay_checks:replay_loader"})
    return result("violated" if wit or hits else "holds", f"{n} junk documents through the real loaders and generate()", queries=n, witnesses=wit[:5], known_hits=sorted(hits), cases=[f"loader:{k}" for k in _LOADER_CASES], bounds={"documents": f"{len(_LOADER_CASES)} byte strings x (.json, .yaml)"}, stubs=["replay oracle: concrete runs, not a solver verdict (json / ruamel.yaml are C code)"])


def replay_loader(w: dict) -> dict:
    p = _loader_case(w["input"]["case"], w["input"]["ext"])
    return {"reproduced": bool(p), "observed": p}
