"""C17 — equivalent documents generate identical clients (the in-code normalisations are decided)."""
from __future__ import annotations

from ..common import Ob
from ..e2 import harness_ob, replay  # noqa: F401

META = {
    "level": "model_checking",
    "assumptions": ["JSON-vs-YAML serialisation and file-vs-URL source are NOT decided by a solver (third-party loaders, no repo logic to encode); the JSON/YAML pair is only compared by the concrete replay oracle"],
}


def obligations(tier: str) -> list[Ob]:
    q = tier == "quick"
    return [
        harness_ob(
            "normalisations", "C17_equiv.py", tier, timeout=200 if q else 600, cpus=4,
            encoded=["openapi_python_client.schema.openapi_schema_pydantic.schema:Schema.handle_nullable", "openapi_python_client.parser.properties.enum_property:EnumProperty.build", "openapi_python_client.parser.properties.literal_enum_property:LiteralEnumProperty.build", "openapi_python_client.parser.properties.union:UnionProperty.build"],
            bounds={"base schemas": 6, "required": "both", "enum style": "both"},
        ),
        harness_ob(
            "single_reference_wrappers", "C20_equiv.py", tier, funcs=["schema_ref_shares_one_class", "component_alias_equals_direct_reference", "wrapper_and_bare_reference_agree"], timeout=330 if q else 900, cpus=2,
            encoded=["openapi_python_client.parser.properties:property_from_data", "openapi_python_client.parser.properties:_property_from_ref"],
            bounds={"wrappers": "bare $ref / allOf / oneOf / anyOf", "target kinds": 3, "components with a default of their own": 6},
        ),
        harness_ob(
            "object_notations", "C17_objects.py", tier, timeout=200 if q else 600, cpus=4,
            finding_by_func={"object_nullable_admits_null": "C17-F1"},
            encoded=["openapi_python_client.schema.openapi_schema_pydantic.schema:Schema.handle_nullable", "openapi_python_client.parser.properties:property_from_data", "openapi_python_client.parser.properties.union:UnionProperty.build", "openapi_python_client.parser.properties.model_property:_process_properties"],
            bounds={"object bases": "inline object; allOf of 1 / 2 references, with and without `type: object`; allOf + own properties", "required": "both"},
        ),
        Ob("replay_equivalent_documents", "vlib.replay_checks:equivalent_documents", {}, timeout_s=900, engine="replay", cpus=1),
    ]
